"""Simulation kernel: imports utype from the repository working tree, owns the
process-global state that runs could leak into each other (worlds), and the
canonical form used to compare outcomes and to hash histories.

Nothing in here draws randomness or reads a clock.
"""
import gc
import hashlib
import json
import os
import re
import sys
import types
import typing
import warnings

REPO = os.environ.get("VERIF_REPO", "/repo")
VERIF = os.path.dirname(os.path.dirname(os.path.abspath(__file__)))

_boot = {}


class HarnessError(Exception):
    """Something is wrong with the harness or the tree cannot be imported (exit 2)."""


def bootstrap():
    """Import utype from REPO (never from site-packages) and snapshot global registries."""
    if _boot:
        return _boot["utype"]
    if REPO not in sys.path:
        sys.path.insert(0, REPO)
    warnings.simplefilter("ignore")
    try:
        import utype  # noqa
    except BaseException as e:  # noqa
        raise HarnessError(f"cannot import utype from {REPO}: {type(e).__name__}: {e}")
    here = os.path.realpath(os.path.dirname(utype.__file__))
    want = os.path.realpath(os.path.join(REPO, "utype"))
    if here != want:
        raise HarnessError(f"utype imported from {here}, expected {want}")
    from utype.settings import warning_settings
    warning_settings.disabled = True
    from utype.utils.transform import TypeTransformer
    from utype.utils.encode import encoder_registry
    from utype.parser import base as pbase
    _boot["utype"] = utype
    _boot["treg"] = TypeTransformer.registry
    _boot["ereg"] = encoder_registry
    _boot["pbase"] = pbase
    _boot["treg_snap"] = list(TypeTransformer.registry._registry)
    _boot["ereg_snap"] = list(encoder_registry._registry)
    _boot["parsers_snap"] = dict(pbase.__parsers__)
    from . import threads
    _boot["coop_locks"] = threads.install_coop_locks()
    gc.disable()
    return utype


_world_modules = []
_world_counter = [0, 0]


def reset_world(collect=False):
    """Forget everything earlier runs may have left in process-global state."""
    bootstrap()
    for name in _world_modules:
        sys.modules.pop(name, None)
    del _world_modules[:]
    for f in typing._cleanups:  # fresh generic-alias caches => fresh ForwardRef objects
        f()
    treg, ereg = _boot["treg"], _boot["ereg"]
    treg._registry = list(_boot["treg_snap"])
    treg._cache = {}
    ereg._registry = list(_boot["ereg_snap"])
    ereg._cache = {}
    p = _boot["pbase"].__parsers__
    p.clear()
    p.update(_boot["parsers_snap"])
    # memoising wrappers (functools.lru_cache / cache) anywhere in utype are process-global state as well: a change to the
    # library may add one, and a warm cache left by an earlier run would make that run's successor irreproducible
    for mname, mod in list(sys.modules.items()):
        if mod is not None and (mname == "utype" or mname.startswith("utype.")):
            for obj in list(mod.__dict__.values()):
                cc = getattr(obj, "cache_clear", None)
                if cc is not None and callable(cc) and not isinstance(obj, type):
                    try:
                        cc()
                    except Exception:  # noqa
                        pass
    from . import threads
    threads.reset_coop_locks()
    from . import faults
    faults.reset()
    _world_counter[1] += 1
    if collect or _world_counter[1] % 16 == 0:
        gc.collect()


def new_suffix():
    _world_counter[0] += 1
    return f"w{_world_counter[0]}"


def make_module(name, source=None, attrs=None):
    """A fresh module registered in sys.modules (so BaseParser.globals finds it)."""
    mod = types.ModuleType(name)
    mod.__dict__["__builtins__"] = __builtins__
    sys.modules[name] = mod
    _world_modules.append(name)
    if attrs:
        mod.__dict__.update(attrs)
    if source:
        exec(compile(source, f"<{name}>", "exec"), mod.__dict__)
    return mod


def exec_into(mod, source):
    exec(compile(source, f"<{mod.__name__}>", "exec"), mod.__dict__)


# ----------------------------------------------------------------------------- canonical forms

_ADDR = re.compile(r" at 0x[0-9a-fA-F]+|0x[0-9a-fA-F]{6,}")
_SUFFIX = re.compile(r"__w\d+|_w\d+\b")


def clean_text(s, limit=160):
    s = _ADDR.sub("", str(s))
    s = _SUFFIX.sub("", s)
    return s[:limit]


def canon(v, depth=0):
    """Type-tagged, JSON-able structural dump. Sets are sorted by their dump."""
    if depth > 12:
        return ["<deep>"]
    if v is None or isinstance(v, (bool, int, str)):
        return v
    if isinstance(v, float):
        return ["float", repr(v)]
    if isinstance(v, bytes):
        return ["bytes", v.decode("latin1")]
    c = getattr(v, "__canon__", None)
    if c is not None and not isinstance(v, type):
        return c()
    from utype import Schema, DataClass
    if isinstance(v, Schema):
        return ["schema:" + _SUFFIX.sub("", type(v).__name__),
                [[canon(k, depth + 1), canon(x, depth + 1)] for k, x in dict.items(v)]]
    if isinstance(v, DataClass) or hasattr(type(v), "__parser__"):
        d = {k: x for k, x in v.__dict__.items() if k != "__context__"}
        return ["dataclass:" + _SUFFIX.sub("", type(v).__name__),
                [[canon(k, depth + 1), canon(x, depth + 1)] for k, x in d.items()]]
    if isinstance(v, dict):
        return ["dict" if type(v) is dict else "dict:" + type(v).__name__,
                [[canon(k, depth + 1), canon(x, depth + 1)] for k, x in v.items()]]
    if isinstance(v, (list, tuple)):
        return [type(v).__name__, [canon(x, depth + 1) for x in v]]
    if isinstance(v, (set, frozenset)):
        items = [canon(x, depth + 1) for x in v]
        items.sort(key=lambda x: json.dumps(x, sort_keys=True, default=str))
        return [type(v).__name__, items]
    if isinstance(v, BaseException):
        return canon_exc(v)
    if isinstance(v, type):
        return ["type", _SUFFIX.sub("", v.__name__)]
    return ["obj:" + type(v).__name__, clean_text(repr(v), 80)]


def canon_exc(e):
    return ["exc", type(e).__name__]


def canon_mapping_unordered(c):
    """For dict canon forms where order must not matter."""
    if isinstance(c, list) and len(c) == 2 and isinstance(c[0], str) and (
            c[0].startswith("dict") or c[0].startswith("schema") or c[0].startswith("dataclass")):
        items = sorted(c[1], key=lambda x: json.dumps(x, sort_keys=True, default=str))
        return [c[0], [[k, canon_mapping_unordered(x)] for k, x in items]]
    if isinstance(c, list):
        return [canon_mapping_unordered(x) for x in c]
    return c


def jdump(x):
    return json.dumps(x, sort_keys=True, default=lambda o: clean_text(repr(o)), separators=(",", ":"))


def digest_of(x):
    return hashlib.sha256(jdump(x).encode()).hexdigest()[:16]
