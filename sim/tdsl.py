"""Small JSON type/value language shared by the fault-kit properties (C04, C06, C10, C11).

type expr:  ["leaf"] ["leaf2"] ["keyleaf"] ["int"] ["str"]
            ["list",T] ["set",T] ["fset",T] ["tup",T] ["ftup",T1,..] ["dict",K,V]
            ["opt",T] ["union",A,B] ["xor",A,B] ["dc",name]
value expr: {"$r":pid} raw payload | int/str/None | [..] list | {"$set":[..]} | {"$tuple":[..]}
            {"$map":[[k,v],..]} dict with arbitrary keys | {"k":v} dict with str keys
            {"$fl":[..]} FaultyList | {"$fd":{..}} FaultyDict
"""
import typing
from . import faults

LEAFISH = ("leaf", "leaf2", "keyleaf", "int", "str", "rleaf", "rkey", "dcitem")
RULE_ORIGIN = {"rleaf": "leaf", "rkey": "keyleaf"}


def build_type(t, env=None):
    k = t[0]
    if k in faults.LEAF_TYPES:
        return faults.LEAF_TYPES[k]
    if k in RULE_ORIGIN:
        return faults.rule_leaves()[k]
    if k == "dcitem":
        return faults.dc_item()
    if k == "int":
        return int
    if k == "str":
        return str
    if k == "list":
        return typing.List[build_type(t[1], env)]
    if k == "set":
        return typing.Set[build_type(t[1], env)]
    if k == "fset":
        return typing.FrozenSet[build_type(t[1], env)]
    if k == "tup":
        return typing.Tuple[build_type(t[1], env), ...]
    if k == "ftup":
        return typing.Tuple[tuple(build_type(x, env) for x in t[1:])]
    if k == "dict":
        return typing.Dict[build_type(t[1], env), build_type(t[2], env)]
    if k == "opt":
        return typing.Optional[build_type(t[1], env)]
    if k == "union":
        return typing.Union[build_type(t[1], env), build_type(t[2], env)]
    if k == "xor":
        from utype.parser.rule import LogicalType
        return LogicalType.one_of(build_type(t[1], env), build_type(t[2], env))
    if k == "and":
        from utype.parser.rule import LogicalType
        return LogicalType.all_of(build_type(t[1], env), build_type(t[2], env))
    if k == "dc":
        return env[t[1]]
    raise ValueError(f"bad type expr {t}")


def rule_type(t, env=None):
    """A type object the transformer accepts directly (typing generics go through Rule.parse_annotation)."""
    from utype import Rule
    return Rule.parse_annotation(annotation=build_type(t, env))


def is_scalar(t):
    """Types the harness treats as one element (no element-level policy applies inside)."""
    k = t[0]
    if k in LEAFISH:
        return True
    if k in ("opt",):
        return is_scalar(t[1])
    if k in ("union", "xor", "and"):
        return is_scalar(t[1]) and is_scalar(t[2])
    return False


def build_value(v):
    if isinstance(v, dict):
        if "$r" in v:
            return faults.RawU(v["$r"]) if v.get("u") else faults.Raw(v["$r"])
        if "$set" in v:
            return set(build_value(x) for x in v["$set"])
        if "$tuple" in v:
            return tuple(build_value(x) for x in v["$tuple"])
        if "$map" in v:
            return {build_value(k): build_value(x) for k, x in v["$map"]}
        if "$fl" in v:
            return faults.FaultyList(build_value(x) for x in v["$fl"])
        if "$fd" in v:
            return faults.FaultyDict({k: build_value(x) for k, x in v["$fd"].items()})
        return {k: build_value(x) for k, x in v.items()}
    if isinstance(v, list):
        return [build_value(x) for x in v]
    return v


def shape(t):
    """Short string for fingerprints / non-triviality keys."""
    if len(t) == 1:
        return t[0]
    return t[0] + "<" + ",".join(shape(x) if isinstance(x, list) else str(x) for x in t[1:]) + ">"


def outer_kind(t):
    return t[0]


def gen_scalar(rng, allow_union=True, rule_leaves=False, all_of=False, one_of=False):
    r = rng.random()
    if one_of and r > 0.92:
        # exactly one of two conditions: one payload, two fault ids -- it passes iff exactly one of them is faulted
        return ["xor", ["leaf"], ["leaf2"]]
    if all_of and r < 0.12:
        # both conditions of an '&' must hold: same payload, same origin, so one fault id decides both
        return ["and", rng.choice([["leaf"], ["rleaf"]]), ["rleaf"]]
    if rule_leaves and r < 0.3:
        return ["rleaf"]
    if r < 0.55 or not allow_union:
        return ["leaf"]
    if r < 0.7:
        return ["leaf2"]
    if r < 0.85:
        return ["union", ["leaf"], ["leaf2"]]
    return ["opt", ["leaf"]]


def gen_container(rng, depth, rule_leaves=False, all_of=False, dc_items=False):
    """A container type of nesting depth `depth` (>=1) over leaf scalars."""
    inner = gen_scalar(rng, rule_leaves=rule_leaves, all_of=all_of) if depth <= 1 else gen_container(rng, depth - 1, rule_leaves, all_of)
    if dc_items and depth <= 1 and rng.random() < 0.2:
        # elements that are data classes (kept in lists / tuples / dict values only: not hashable)
        k = rng.choice(["list", "tup", "dict"])
        return ["dict", ["str"], ["dcitem"]] if k == "dict" else [k, ["dcitem"]]
    k = rng.choice(["list", "list", "set", "tup", "dict", "dict", "fset"])
    if k in ("set", "fset") and not is_scalar(inner):
        k = "list"  # set elements must be hashable
    if k == "dict":
        r = rng.random()
        key = ["rkey"] if (rule_leaves and r < 0.35) else (["keyleaf"] if r < 0.75 else ["str"])
        return ["dict", key, inner]
    return [k, inner]


class PidPool:
    def __init__(self, start=1):
        self.n = start

    def next(self):
        self.n += 1
        return self.n - 1


UNHASHABLE_ITEMS = False     # set by a property whose reference knows what an unhashable element of a set means


def gen_value(rng, t, pool, positions, path=()):
    """Generate a well-formed input for t made of Raw payloads; records (path, leaf-type, pid) in positions."""
    k = t[0]
    if k in RULE_ORIGIN:
        k = RULE_ORIGIN[k]
    if k in faults.LEAF_TYPES:
        pid = pool.next()
        positions.append((list(path), k, pid))
        return {"$r": pid}
    if k == "dcitem":
        d = rng.choice([{}, {"a": "zz"}, {"a": 1}, {"a": 1, "b": 2}, {"b": "3"}, {"a": "zz", "b": 1}, {"l": None}])
        d = dict(d)
        if "l" in d:
            pid = pool.next()
            positions.append((list(path), "leaf", pid))
            d["l"] = {"$r": pid}
        return d
    if k == "int":
        return rng.choice([1, 2, 3, "4", 5])
    if k == "str":
        return "s%d" % pool.next()
    if k == "opt":
        if rng.random() < 0.15:
            return None
        return gen_value(rng, t[1], pool, positions, path)
    if k == "and":
        pid = pool.next()
        positions.append((list(path), "leaf", pid))
        return {"$r": pid}
    if k in ("union", "xor"):
        # one payload tried against both branches: same pid, two fault ids
        pid = pool.next()
        for b in (t[1], t[2]):
            bk = RULE_ORIGIN.get(b[0], b[0])
            if bk in faults.LEAF_TYPES:
                positions.append((list(path), bk, pid))
        return {"$r": pid}
    if k in ("list", "set", "fset", "tup"):
        n = rng.choice([0, 1, 2, 2, 3, 3, 4])
        items = [gen_value(rng, t[1], pool, positions, path + (i,)) for i in range(n)]
        if k in ("set", "fset") and rng.random() < 0.6:
            return {"$set": items}
        if k in ("set", "fset") and UNHASHABLE_ITEMS:
            # given as a list, some of the elements not hashable as they are (they still convert like the others)
            for it in items:
                if isinstance(it, dict) and "$r" in it and rng.random() < 0.4:
                    it["u"] = 1
        if k == "tup" and rng.random() < 0.5:
            return {"$tuple": items}
        return items
    if k == "ftup":
        return {"$tuple": [gen_value(rng, x, pool, positions, path + (i,)) for i, x in enumerate(t[1:])]}
    if k == "dict":
        n = rng.choice([0, 1, 2, 2, 3])
        pairs = []
        for i in range(n):
            kk = gen_value(rng, t[1], pool, positions, path + (i, "k"))
            vv = gen_value(rng, t[2], pool, positions, path + (i, "v"))
            pairs.append([kk, vv])
        if t[1][0] == "str":
            return {kk: vv for kk, vv in pairs}
        return {"$map": pairs}
    raise ValueError(t)
