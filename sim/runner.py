"""Runner: seeds -> plans -> executions on a fork pool; minimise, replay-confirm, evidence.

Exit codes: 0 property held on everything explored (known findings are reported, not failed),
1 at least one replay-confirmed violation that is not a listed known finding,
2 harness error (never a pass).
"""
import argparse
import faulthandler
import importlib
import json
import os
import random
import subprocess
import sys
import time
import traceback
from collections import Counter
from concurrent.futures import ProcessPoolExecutor, wait, FIRST_COMPLETED
import multiprocessing as mp

from . import kernel
from .kernel import HarnessError, VERIF, jdump

PY = sys.executable
SEED_MUL = 1_000_003


class RunResult:
    """What one execution of one plan produced."""

    def __init__(self):
        self.history = []        # list of JSON-able events; its hash is the digest
        self.violations = []     # [(fingerprint, text)]
        self.nontrivial = None   # key (str) when the run is non-trivial by the property's rule
        self.stats = Counter()   # faults fired, probes, virtual steps ...
        self.states = set()      # optional distinct-state keys
        self.interleaving = None  # optional hash of the switch-location sequence

    def ev(self, *a):
        self.history.append(list(a))

    def violate(self, fingerprint, text):
        self.violations.append((fingerprint, kernel.clean_text(text, 400)))

    @property
    def digest(self):
        return kernel.digest_of(self.history)


def load_prop(pid):
    return importlib.import_module("props." + pid.lower())


def run_seed(prop, run_seed_, tier):
    plan = prop.generate(random.Random(run_seed_), tier)
    plan["seed"] = run_seed_
    return plan, prop.execute(plan)


def _summarise(seed, plan, res, want_sample):
    return {
        "seed": seed,
        "digest": res.digest,
        "violations": res.violations,
        "nontrivial": res.nontrivial,
        "stats": dict(res.stats),
        "states": list(res.states),
        "interleaving": res.interleaving,
        "sample": {"plan": plan, "history": res.history[:40]} if want_sample else None,
    }


def _work(pid, seeds, tier, sample_every):
    faulthandler.dump_traceback_later(600, exit=True)
    try:
        prop = load_prop(pid)
        out = []
        for i, s in enumerate(seeds):
            try:
                plan, res = run_seed(prop, s, tier)
            except HarnessError:
                raise
            except BaseException as e:  # noqa  harness exception: classified apart from violations
                return {"harness_error": f"seed {s}: {type(e).__name__}: {e}\n{traceback.format_exc()[-3000:]}"}
            out.append(_summarise(s, plan, res, want_sample=(i % sample_every == 0) or bool(res.violations)))
        return {"results": out}
    finally:
        faulthandler.cancel_dump_traceback_later()


# ----------------------------------------------------------------------------- known findings

def load_known(pid):
    path = os.path.join(VERIF, "known_findings.json")
    if not os.path.exists(path):
        return []
    with open(path) as f:
        data = json.load(f)
    return [k for k in data.get("findings", []) if k.get("property") == pid]


# ----------------------------------------------------------------------------- minimisation

def minimise(prop, plan, fingerprint, budget_s=60, max_steps=400):
    """Greedy delta debugging: accept any smaller plan showing the same fingerprint."""
    t0 = time.time()
    steps = 0
    improved = True
    while improved and time.time() - t0 < budget_s and steps < max_steps:
        improved = False
        for cand in prop.shrink(plan):
            steps += 1
            if time.time() - t0 > budget_s or steps >= max_steps:
                break
            try:
                res = prop.execute(cand)
            except BaseException:  # noqa
                continue
            if any(fp == fingerprint for fp, _ in res.violations):
                plan = cand
                improved = True
                break
    return plan


def write_replay(pid, seed, plan, fingerprint, text, res, name=None):
    d = os.path.join(VERIF, "replays", pid)
    os.makedirs(d, exist_ok=True)
    path = os.path.join(d, name or f"v_{seed}.json")
    with open(path, "w") as f:
        json.dump({
            "property": pid, "fingerprint": fingerprint, "seed": seed, "plan": plan,
            "expect": {"digest": res.digest, "violation_text": text},
            "history": res.history[:200],
        }, f, indent=1, default=lambda o: kernel.clean_text(repr(o)))
    return path


def replay_file(pid, path, quiet=False):
    prop = load_prop(pid)
    with open(path) as f:
        rp = json.load(f)
    res = prop.execute(rp["plan"])
    want = rp.get("fingerprint")
    hit = [v for v in res.violations if want is None or v[0] == want]
    if not quiet:
        for ev in res.history[:200]:
            print("  ", jdump(ev))
        print(f"digest={res.digest} expected={rp.get('expect', {}).get('digest')}")
        for fp, text in res.violations:
            print(f"violation fingerprint={fp} :: {text}")
    return res, hit


def confirm_in_fresh_interpreter(pid, path):
    env = dict(os.environ)
    env["PYTHONHASHSEED"] = "0"
    p = subprocess.run([PY, os.path.join(VERIF, "check.py"), pid, "--replay", path, "--quiet"],
                       cwd=VERIF, env=env, capture_output=True, text=True, timeout=600)
    return p.returncode == 1, p.stdout[-2000:] + p.stderr[-2000:]


# ----------------------------------------------------------------------------- determinism self-test

def fresh_digests(pid, seeds, tier):
    env = dict(os.environ)
    env["PYTHONHASHSEED"] = "4242"
    env["TZ"] = "Pacific/Kiritimati"
    env["VERIF_NO_REEXEC"] = "1"
    p = subprocess.run([PY, os.path.join(VERIF, "check.py"), pid, "--tier", tier,
                        "--digests", ",".join(map(str, seeds))],
                       cwd=VERIF, env=env, capture_output=True, text=True, timeout=900)
    if p.returncode != 0:
        raise HarnessError(f"digest subprocess failed: {p.stdout[-1500:]}{p.stderr[-1500:]}")
    out = {}
    for line in p.stdout.splitlines():
        if line.startswith("DIGEST "):
            _, s, d = line.split()
            out[int(s)] = d
    return out


# ----------------------------------------------------------------------------- main

def main(argv=None):
    # the local time zone is an input of utype's date conversions (a naive datetime.max has a timestamp in one zone and
    # overflows in another): the simulator owns that seam and fixes it; the fresh-interpreter self-test is started under
    # another TZ to show that the pin holds
    os.environ["TZ"] = "UTC"
    time.tzset()
    ap = argparse.ArgumentParser()
    ap.add_argument("prop")
    ap.add_argument("--tier", default=os.environ.get("VERIF_TIER", "quick"), choices=["quick", "thorough"])
    ap.add_argument("--replay")
    ap.add_argument("--quiet", action="store_true")
    ap.add_argument("--seed", type=int, default=int(os.environ.get("VERIF_SEED", "0")))
    ap.add_argument("--runs", type=int)
    ap.add_argument("--budget", type=float, default=float(os.environ.get("VERIF_BUDGET_S", "0")) or None)
    ap.add_argument("--workers", type=int, default=int(os.environ.get("VERIF_WORKERS", "16")))
    ap.add_argument("--digests")
    ap.add_argument("--no-selftest", action="store_true")
    ap.add_argument("--keep-going", action="store_true")
    args = ap.parse_args(argv)
    pid = args.prop.upper()

    if os.environ.get("PYTHONHASHSEED") != "0" and not os.environ.get("VERIF_NO_REEXEC"):
        env = dict(os.environ)
        env["PYTHONHASHSEED"] = "0"
        env["PYTHONDONTWRITEBYTECODE"] = "1"
        os.execve(PY, [PY] + sys.argv, env)

    try:
        kernel.bootstrap()
        prop = load_prop(pid)
        if args.replay:
            res, hit = replay_file(pid, args.replay, quiet=args.quiet)
            if hit:
                print(f"VIOLATION property={pid} replay={args.replay}")
                return 1
            print("replay clean")
            return 0
        if args.digests:
            seeds = [int(x) for x in args.digests.split(",") if x]
            for s in reversed(seeds):
                plan, res = run_seed(prop, s, args.tier)
                print(f"DIGEST {s} {res.digest}")
            return 0
        return explore(prop, pid, args)
    except HarnessError as e:
        print(f"HARNESS-ERROR property={pid} {e}")
        return 2
    except Exception as e:  # noqa
        traceback.print_exc()
        print(f"HARNESS-ERROR property={pid} {type(e).__name__}: {e}")
        return 2


def explore(prop, pid, args):
    t0 = time.time()
    tier = args.tier
    cfg = prop.TIERS[tier]
    n_runs = args.runs or cfg.get("runs")
    budget = args.budget or cfg.get("budget_s")
    chunk = cfg.get("chunk", 50)
    base = args.seed * SEED_MUL
    print(f"VERIF_SEED={args.seed} property={pid} tier={tier} runs={n_runs} budget_s={budget} "
          f"workers={args.workers} repo={kernel.REPO}")

    known = load_known(pid)
    known_fps = {}
    # 1. known findings: replay each committed replay; it must still reproduce to be reported
    for k in known:
        rp = os.path.join(VERIF, k["replay"])
        res, hit = replay_file(pid, rp, quiet=True)
        if hit:
            print(f"KNOWN-FINDING: property={pid} {k['what']} [replay={k['replay']}]")
            known_fps[k["fingerprint"]] = k
        else:
            print(f"note: listed finding no longer reproduces: {k['fingerprint']}")
            known_fps[k["fingerprint"]] = k  # still not an alarm by itself

    # 2. exploration
    agg = Counter()
    nontrivial = set()
    states = set()
    interleavings = set()
    digests = {}
    samples = []
    viols = {}   # fingerprint -> (seed, text)
    known_matched = Counter()
    evaluations = 0
    next_i = 0
    harness_error = None
    ctx = mp.get_context("fork")
    sample_every = max(1, (n_runs or 20000) // 40)
    with ProcessPoolExecutor(max_workers=args.workers, mp_context=ctx) as pool:
        pending = set()

        def submit():
            nonlocal next_i
            seeds = [base + j for j in range(next_i, next_i + chunk)]
            if n_runs:
                seeds = [s for s in seeds if s - base < n_runs]
            next_i += chunk
            if seeds:
                pending.add(pool.submit(_work, pid, seeds, tier, sample_every))

        def more():
            if n_runs and next_i >= n_runs:
                return False
            if budget and time.time() - t0 > budget:
                return False
            if viols and not args.keep_going and len(viols) >= 8:
                return False
            return True

        for _ in range(args.workers * 2):
            if more():
                submit()
        while pending:
            done, _p = wait(pending, timeout=900, return_when=FIRST_COMPLETED)
            if not done:
                harness_error = "worker batch timed out (900 s)"
                break
            for fut in done:
                pending.discard(fut)
                try:
                    r = fut.result()
                except BaseException as e:  # noqa  (BrokenProcessPool etc.)
                    harness_error = f"worker died: {type(e).__name__}: {e}"
                    break
                if "harness_error" in r:
                    harness_error = r["harness_error"]
                    break
                for s in r["results"]:
                    evaluations += 1
                    digests[s["seed"]] = s["digest"]
                    agg.update(s["stats"])
                    if s["nontrivial"]:
                        nontrivial.add(s["nontrivial"])
                    states.update(s["states"])
                    if s["interleaving"]:
                        interleavings.add(s["interleaving"])
                    if s["sample"] and len(samples) < 5 and not s["violations"]:
                        samples.append(s["sample"])
                    for fp, text in s["violations"]:
                        if fp in known_fps:
                            known_matched[fp] += 1
                        elif fp not in viols or s["seed"] < viols[fp][0]:
                            viols[fp] = (s["seed"], text)
                if more():
                    submit()
            if harness_error:
                break
        if harness_error:
            for p in list(getattr(pool, "_processes", {}).values()):
                try:
                    p.kill()
                except Exception:  # noqa
                    pass
            pool.shutdown(wait=False, cancel_futures=True)
    if harness_error:
        raise HarnessError(harness_error)
    if evaluations == 0:
        raise HarnessError("no runs executed")

    # 3. determinism self-test: same seeds, fresh interpreter, other hash seed / TZ, one process, reverse order
    selftest = {"skipped": True}
    if not args.no_selftest:
        k = cfg.get("selftest", 48)
        st_seeds = sorted(digests)[:k]
        fresh = fresh_digests(pid, st_seeds, tier)
        bad = [s for s in st_seeds if fresh.get(s) != digests[s]]
        selftest = {"seeds": len(st_seeds), "mismatches": len(bad),
                    "modes": "pool(fork,%d workers,PYTHONHASHSEED=0) vs fresh interpreter(1 process,"
                             "PYTHONHASHSEED=4242,TZ=Pacific/Kiritimati,reverse order)" % args.workers}
        if bad:
            raise HarnessError(f"determinism self-test failed for seeds {bad[:5]}")

    # 4. violations: minimise, write replay, confirm in a fresh interpreter
    reported = []
    for fp, (seed, text) in sorted(viols.items(), key=lambda kv: kv[1][0]):
        plan = prop.generate(random.Random(seed), tier)
        plan["seed"] = seed
        plan = minimise(prop, plan, fp, budget_s=cfg.get("minimise_s", 45))
        res = prop.execute(plan)
        vt = next((t for f, t in res.violations if f == fp), text)
        path = write_replay(pid, seed, plan, fp, vt, res)
        ok, out = confirm_in_fresh_interpreter(pid, path)
        if not ok:
            raise HarnessError(f"violation {fp} (seed {seed}) did not replay in a fresh interpreter:\n{out}")
        reported.append((fp, path, vt))

    wall = time.time() - t0
    ev = {
        "property_id": pid, "tier": tier, "seed": args.seed, "level": "exploration",
        "coverage": {
            "evaluations": evaluations,
            "distinct_nontrivial": len(nontrivial),
            "rule": prop.RULE,
            "samples": samples[:4],
            "runs_per_hour": int(evaluations / max(wall, 1e-6) * 3600),
            "seed_range": [base, base + next_i - 1],
            "virtual_steps": agg.get("vsteps", 0),
            "virtual_seconds": round(agg.get("vtime_ms", 0) / 1000.0, 3),
            "faults_fired": {k[6:]: v for k, v in sorted(agg.items()) if k.startswith("fault:")},
            "probes": {k[6:]: v for k, v in sorted(agg.items()) if k.startswith("probe:")},
            "ops": {k[3:]: v for k, v in sorted(agg.items()) if k.startswith("op:")},
            "distinct_interleavings": len(interleavings),
            "distinct_states": len(states),
            "components": prop.COMPONENTS,
            "determinism_selftest": selftest,
            "known_findings_matched": dict(known_matched),
            "new_violation_fingerprints": [fp for fp, _, _ in reported],
            "repo": kernel.REPO,
        },
        "assumptions": prop.ASSUMPTIONS,
        "wall_s": round(wall, 2),
        "violations": len(reported),
    }
    # evidence is only what the check saw on /repo itself; runs against a scratch copy (mutant self-tests) write elsewhere
    evdir = os.path.join(VERIF, "evidence") if os.path.realpath(kernel.REPO) == "/repo" else os.environ.get("VERIF_SCRATCH_EVIDENCE", "/dev/shm/verif_scratch_evidence")
    os.makedirs(evdir, exist_ok=True)
    with open(os.path.join(evdir, f"{pid}.json"), "w") as f:
        json.dump(ev, f, indent=1, default=lambda o: kernel.clean_text(repr(o)))
    zero = [k for k, v in ev["coverage"]["probes"].items() if v == 0]
    for name in getattr(prop, "PROBES", []):
        if name not in ev["coverage"]["probes"] or name in zero:
            print(f"warning: probe '{name}' stayed at zero")
    print(f"runs={evaluations} distinct_nontrivial={len(nontrivial)} wall_s={wall:.1f} "
          f"faults={ev['coverage']['faults_fired']} known_matched={dict(known_matched)}")
    for fp, path, vt in reported:
        print(f"violation fingerprint={fp} :: {vt}")
        print(f"VIOLATION property={pid} replay={path}")
    return 1 if reported else 0
