"""SimLoop: a virtual-time asyncio event loop. Real asyncio Task/Future/sleep/wait_for/gather code runs on it
unmodified; there is no selector and no wall clock. Each iteration runs exactly ONE ready handle, chosen by
the loop's private PRNG ('random' mode) or in asyncio's own order ('fifo' mode); when nothing is ready the
clock jumps to the next timer. 'Nothing ready, nothing scheduled' while the main future is pending is a stall.
Hooks (`at_iteration`) let a plan inject cancellations at exact loop iterations.
"""
import asyncio
import heapq
import random


class SimStall(Exception):
    """The loop has nothing to run and nothing scheduled, but run_until_complete's future is not done."""


class SimBudget(Exception):
    """More loop iterations than the budget allows (deterministic hang verdict)."""


class SimLoop(asyncio.BaseEventLoop):
    def __init__(self, seed=0, mode="fifo", max_iterations=20000):
        super().__init__()
        self._vtime = 0.0
        self._rng = random.Random(seed)
        self.mode = mode
        self.iterations = 0
        self.max_iterations = max_iterations
        self.clock_jumps = 0
        self.at_iteration = {}     # iteration number -> [callable]
        self.trace = []            # (iteration, vtime) only when asked
        self.unhandled = []        # messages given to the exception handler
        self.set_exception_handler(self._on_exception)

    # -- clock ---------------------------------------------------------------------------------
    def time(self):
        return self._vtime

    # -- the parts of BaseEventLoop that would touch a selector -----------------------------------
    def _process_events(self, event_list):
        pass

    def _write_to_self(self):
        pass

    def _on_exception(self, loop, context):
        self.unhandled.append(str(context.get("message")) + ":" + type(context.get("exception")).__name__)

    def _run_once(self):
        self.iterations += 1
        if self.iterations > self.max_iterations:
            raise SimBudget(f"{self.iterations} loop iterations")
        for cb in self.at_iteration.pop(self.iterations, ()):
            cb()
        sched = self._scheduled
        # drop cancelled timers at the head
        while sched and sched[0]._cancelled:
            h = heapq.heappop(sched)
            h._scheduled = False
            self._timer_cancelled_count = max(0, self._timer_cancelled_count - 1)
        if not self._ready and sched:
            when = sched[0]._when
            if when > self._vtime:
                self._vtime = when
                self.clock_jumps += 1
        while sched and sched[0]._when <= self._vtime:
            h = heapq.heappop(sched)
            h._scheduled = False
            if h._cancelled:
                self._timer_cancelled_count = max(0, self._timer_cancelled_count - 1)
                continue
            self._ready.append(h)
        if not self._ready:
            if self._stopping:
                return
            raise SimStall(f"nothing ready, nothing scheduled at iteration {self.iterations} (t={self._vtime})")
        if self.mode == "random" and len(self._ready) > 1:
            i = self._rng.randrange(len(self._ready))
            self._ready.rotate(-i)
            handle = self._ready.popleft()
            self._ready.rotate(i)
        else:
            handle = self._ready.popleft()
        if not handle._cancelled:
            handle._run()
        handle = None


def run(coro_factory, seed=0, mode="fifo", max_iterations=20000, cancel_plan=None):
    """Runs coro_factory(loop) to completion on a fresh SimLoop. Returns (result | exception, loop)."""
    loop = SimLoop(seed=seed, mode=mode, max_iterations=max_iterations)
    asyncio.set_event_loop(loop)
    try:
        try:
            out = loop.run_until_complete(coro_factory(loop))
        except (SimStall, SimBudget) as e:
            out = e
        return out, loop
    finally:
        try:
            # finish what is left (cancelled tasks, async-generator finalisers); bounded
            pending = [t for t in asyncio.all_tasks(loop) if not t.done()]
            for t in pending:
                t.cancel()
            if pending:
                try:
                    loop.run_until_complete(asyncio.gather(*pending, return_exceptions=True))
                except (SimStall, SimBudget, RuntimeError):
                    pass
            try:
                loop.run_until_complete(loop.shutdown_asyncgens())
            except (SimStall, SimBudget, RuntimeError):
                pass
        finally:
            asyncio.set_event_loop(None)
            loop.close()
