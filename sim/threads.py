"""Thread engine: real threads, one baton, every context switch decided by the plan.

Simulated callers are real `threading.Thread`s. Exactly one holds the baton; the others are parked on
their own semaphore and are released only by the baton holder, so the OS never chooses who runs.
Pre-emption points are `sys.settrace` line events of frames whose code lives under <repo>/utype, plus
operation boundaries. Virtual time = number of pre-emption points executed (globally numbered).

Policies (all deterministic functions of their parameters and a private PRNG):
  sequential            no pre-emption; threads run to completion in the given order
  uniform p             switch with probability p at every point
  targeted p_in p_out   probability p_in while the running thread is inside an anchor function, else p_out
  quantum q             round robin every q points
  pct d                 random priorities, d-1 priority change points (needs an estimate of the run length)
  segments [[tid,n]..]  replay: thread tid runs n points, then the next segment; exhausted -> run to completion in id order
"""
import os
import random
import sys
import threading

from . import kernel
from .vclock import StepBudgetExceeded, UTYPE_DIR


CURRENT = [None]   # the Scheduler that is running simulated threads right now (None outside a simulation)


class CoopLock:
    """Replacement for threading.Lock/RLock objects inside utype: blocking gives the baton away instead of
    blocking the OS thread (which would stall the simulation); 'everyone blocked' is reported as a deadlock."""

    ALL = []     # every cooperative lock made in this process (reset between worlds: a lock left held by a run that went
                 # wrong must not leak into the next run)

    def __init__(self, reentrant=False):
        self.reentrant = reentrant
        self.owner = None
        self.count = 0
        CoopLock.ALL.append(self)

    def acquire(self, blocking=True, timeout=-1):
        sched = CURRENT[0]
        if sched is None:
            self.owner = "main"
            self.count += 1
            return True
        me = sched.current
        while self.owner is not None and not (self.reentrant and self.owner == me):
            if not blocking:
                return False
            sched.probe("lock_contended")
            sched.block(me, self)
        self.owner = me
        self.count += 1
        return True

    def release(self):
        self.count -= 1
        if self.count <= 0:
            self.count = 0
            self.owner = None
            sched = CURRENT[0]
            if sched is not None:
                sched.unblock(self)

    def locked(self):
        return self.owner is not None

    def __enter__(self):
        self.acquire()
        return self

    def __exit__(self, *a):
        self.release()
        return False


class _ThreadingShim:
    """Stands in for the `threading` module name inside utype modules that create locks at run time."""

    def __init__(self, real):
        self._real = real

    def Lock(self):
        return CoopLock(False)

    def RLock(self):
        return CoopLock(True)

    def __getattr__(self, name):
        return getattr(self._real, name)


def reset_coop_locks():
    for lk in CoopLock.ALL:
        lk.owner = None
        lk.count = 0


def install_coop_locks():
    """Replace every lock object reachable from utype's modules, classes and the two global registries, and the
    `threading` name those modules use, by cooperative versions. Returns how many were replaced."""
    import sys as _sys
    import threading as _threading
    lock_types = (type(_threading.Lock()), type(_threading.RLock()))
    n = 0
    memo = {}       # one lock object that is reachable under several names stays one lock

    def fix(holder, getter, setter):
        nonlocal n
        for name, val in list(getter(holder)):
            if isinstance(val, lock_types):
                if id(val) not in memo:
                    memo[id(val)] = (val, CoopLock(isinstance(val, lock_types[1])))
                setter(holder, name, memo[id(val)][1])
                n += 1
    for mname, mod in list(_sys.modules.items()):
        if not (mname == "utype" or mname.startswith("utype.")) or mod is None:
            continue
        if mod.__dict__.get("threading") is _threading:
            mod.__dict__["threading"] = _ThreadingShim(_threading)
        fix(mod, lambda m: m.__dict__.items(), lambda m, k, v: m.__dict__.__setitem__(k, v))
        for obj in list(mod.__dict__.values()):
            if isinstance(obj, type) and getattr(obj, "__module__", "").startswith("utype"):
                fix(obj, lambda c: c.__dict__.items(), lambda c, k, v: setattr(c, k, v))
                for sub in list(obj.__dict__.values()):
                    d = getattr(sub, "__dict__", None)
                    if isinstance(d, dict) and not isinstance(sub, type):
                        fix(sub, lambda o: o.__dict__.items(), lambda o, k, v: o.__dict__.__setitem__(k, v))
            else:
                d = getattr(obj, "__dict__", None)
                if isinstance(d, dict) and type(obj).__module__.startswith("utype"):
                    fix(obj, lambda o: o.__dict__.items(), lambda o, k, v: o.__dict__.__setitem__(k, v))
    return n


def anchor_codes():
    """Code objects of the lazily-initialising functions named in the property anchors."""
    from utype.parser.base import BaseParser
    from utype.parser.func import FunctionParser
    from utype.parser.rule import LogicalType, Rule, register_forward_ref, resolve_forward_type
    from utype.parser.field import ParserField
    from utype.utils.base import TypeRegistry
    fs = [BaseParser.resolve_forward_refs, BaseParser.apply_for.__func__, FunctionParser.resolve_forward_refs,
          LogicalType.resolve_forward_refs, LogicalType.register_forward_refs, Rule.resolve_forward_refs.__func__,
          register_forward_ref, resolve_forward_type, ParserField.resolve_forward_refs,
          TypeRegistry.register, TypeRegistry.resolve, BaseParser.resolve_parser.__func__,
          getattr(BaseParser, "_resolve_forward_refs", None), getattr(BaseParser, "resolve_forward_types", None),
          getattr(FunctionParser, "resolve_forward_types", None), getattr(FunctionParser, "assign_generator_types", None),
          # the wrappers that trigger the lazy resolution at a call (their inner closures are picked up below)
          FunctionParser.get_sync_generator, FunctionParser.get_async_generator, FunctionParser.get_async_call,
          FunctionParser.sync_call]
    return _codes_of(fs)


def reader_codes():
    """Readers of the lazily rewritten state: counted as anchors for the targeted policies, but too hot for
    bytecode events."""
    from utype.parser.field import ParserField
    from utype.utils.transform import TypeTransformer
    return _codes_of([ParserField.parse_value, TypeTransformer.__call__, TypeTransformer.apply])


_HOT = {}


def hot_lines():
    """(write lines, read lines) inside the anchor functions: source lines that store into / read from the state that is
    initialised lazily and shared between threads. Found by a textual scan of the anchors' source (no hook in /repo)."""
    if _HOT:
        return _HOT["w"], _HOT["r"]
    import inspect
    import re
    w_re = re.compile(r"(\.pop\(|\.clear\(|\.update\(|\.append\(|setattr\(|__forward_evaluated__\s*=[^=]|__forward_value__\s*=[^=]|"
                      r"\.type\s*(,\s*\w+\s*)?=[^=]|\.output_type\s*(,\s*\w+\s*)?=[^=]|self\.\w+\s*(,\s*\w+)?\s*=[^=]|cls\.__\w+__\s*=[^=]|"
                      r"_cache\[|cache\[\w+\]\s*=|_registry\s*=|_cache\s*=|__parsers__\[)")
    r_re = re.compile(r"(forward_refs|\.type\b|output_type|__forward_evaluated__|__forward_value__|_cache\b|\bcache\b|_registry|"
                      r"generator_\w+_type|return_type|position_type|addition_type|__parsers__|__args__|__arg_transformers__)")
    w, r = set(), set()
    for code in set(anchor_codes()) | set(reader_codes()):
        try:
            lines, first = inspect.getsourcelines(code)
        except (OSError, TypeError):
            continue
        for off, text in enumerate(lines):
            t = text.split("#", 1)[0]
            if w_re.search(t):
                w.add((code.co_filename, first + off))
            elif r_re.search(t):
                r.add((code.co_filename, first + off))
    _HOT["w"], _HOT["r"] = w, r
    return w, r


def _codes_of(fs):
    codes = set()
    for f in fs:
        c = getattr(f, "__code__", None)
        if c is not None:
            codes.add(c)
            for k in c.co_consts:   # nested closures (register's decorator / detector)
                if hasattr(k, "co_code"):
                    codes.add(k)
    return codes


# ----------------------------------------------------------------------------- bytecode granularity (sys.monitoring)
# CPython switches threads between bytecodes, not between source lines. For the anchor functions (and only
# there: it is slow) INSTRUCTION events of sys.monitoring add one pre-emption point per executed instruction.
# (settrace opcode events do not fire on 3.12.1.)

_MON = {"ready": False, "tool": 3}


def _on_instruction(code, offset):
    sched = CURRENT[0]
    if sched is None or not sched.bytecode or sched.abort:
        return None
    tid = sched.idents.get(threading.get_ident())
    if tid is None or tid != sched.current:
        return None
    sched.probes["bytecode_points"] = sched.probes.get("bytecode_points", 0) + 1
    try:
        sched.point(tid, None, instr=(code.co_name, offset))
    except StepBudgetExceeded:
        pass    # the next line event of this thread raises it where the tracer is allowed to
    return None


def bytecode_events(codes, on):
    mon = getattr(sys, "monitoring", None)
    if mon is None:
        return False
    if not _MON["ready"]:
        mon.use_tool_id(_MON["tool"], "verif-sim")
        mon.register_callback(_MON["tool"], mon.events.INSTRUCTION, _on_instruction)
        _MON["ready"] = True
    for c in codes:
        mon.set_local_events(_MON["tool"], c, mon.events.INSTRUCTION if on else 0)
    return True


class Policy:
    def __init__(self, spec, nthreads):
        self.spec = spec
        self.kind = spec["kind"]
        self.rng = random.Random(spec.get("seed", 0))
        self.n = nthreads
        if self.kind in ("pct", "apct"):
            order = list(range(nthreads))
            self.rng.shuffle(order)
            self.prio = {t: nthreads - i + 100 for i, t in enumerate(order)}
            est = max(10, spec.get("est", 4000))
            self.change = sorted(self.rng.randrange(1, est) for _ in range(max(0, spec.get("d", 2) - 1)))
            self.low = 0
        if self.kind == "segments":
            self.segs = [list(s) for s in spec["segments"]]
            self.si = 0
            self.left = self.segs[0][1] if self.segs else 0
        if self.kind == "acuts":
            # [[tid, n], ...]: thread tid runs until it has passed n anchor points, then the next cut's thread runs, ...;
            # afterwards everything runs to completion in id order. Two cuts place one thread inside a chosen region of a
            # lazily-initialising function and stop a second one inside another chosen region: the shape races need.
            self.cuts = [list(c) for c in spec["cuts"]]
            self.ci = 0
            self.acount = 0

    def first(self, runnable):
        k = self.kind
        if k == "sequential":
            order = self.spec.get("order")
            if order:
                for t in order:
                    if t in runnable:
                        return t
            return runnable[0]
        if k in ("pct", "apct"):
            return max(runnable, key=lambda t: self.prio[t])
        if k == "segments":
            while self.si < len(self.segs) and self.segs[self.si][0] not in runnable:
                self._adv()
            if self.si < len(self.segs):
                return self.segs[self.si][0]
            return runnable[0]
        if k == "acuts":
            return self._acut_pick(runnable)
        return self.rng.choice(runnable) if k != "quantum" else runnable[0]

    def _acut_pick(self, runnable):
        while self.ci < len(self.cuts) and self.cuts[self.ci][0] not in runnable:
            self.ci += 1
            self.acount = 0
        if self.ci < len(self.cuts):
            return self.cuts[self.ci][0]
        return runnable[0]

    def _adv(self):
        self.si += 1
        self.left = self.segs[self.si][1] if self.si < len(self.segs) else 0

    def next_after_finish(self, tid, runnable):
        """Thread tid finished (or parked forever): who runs now?"""
        if self.kind == "segments":
            if self.si < len(self.segs) and self.segs[self.si][0] == tid:
                self._adv()
            return self.first(runnable)
        if self.kind == "sequential":
            return self.first(runnable)
        if self.kind == "acuts":
            if self.ci < len(self.cuts) and self.cuts[self.ci][0] == tid:
                self.ci += 1
                self.acount = 0
            return self._acut_pick(runnable)
        if self.kind in ("pct", "apct"):
            return max(runnable, key=lambda t: self.prio[t])
        if self.kind == "quantum":
            later = [t for t in runnable if t > tid]
            return (later or runnable)[0]
        return self.rng.choice(runnable)

    def choose(self, tid, vstep, seg_steps, in_anchor, runnable):
        """Called by the baton holder at each point; returns the thread to run next (tid = keep going)."""
        k = self.kind
        if len(runnable) < 2:
            if k == "segments" and self.si < len(self.segs) and self.segs[self.si][0] == tid:
                self.left -= 1
                if self.left <= 0:
                    self._adv()
            return tid
        if k == "sequential":
            return tid
        if k == "uniform":
            if self.rng.random() < self.spec["p"]:
                return self.rng.choice([t for t in runnable if t != tid])
            return tid
        if k == "targeted":
            p = self.spec["p_in"] if in_anchor else self.spec["p_out"]
            if self.rng.random() < p:
                return self.rng.choice([t for t in runnable if t != tid])
            return tid
        if k == "quantum":
            if seg_steps >= self.spec["q"]:
                later = [t for t in runnable if t > tid]
                return (later or runnable)[0]
            return tid
        if k == "acuts":
            if self.ci >= len(self.cuts):
                return tid
            if self.cuts[self.ci][0] != tid:
                want = self._acut_pick(runnable)
                return want
            want_region = self.cuts[self.ci][2] if len(self.cuts[self.ci]) > 2 else "a"
            if want_region == "O":
                counts = bool(getattr(self, "boundary", False))      # the thread is about to invoke its next operation
            elif want_region in ("W", "R"):
                counts = getattr(self, "hot", None) == want_region
            else:
                counts = in_anchor and (want_region == "a" or want_region == getattr(self, "region", None))
            if counts:
                self.acount += 1
                if self.acount >= self.cuts[self.ci][1]:
                    self.ci += 1
                    self.acount = 0
                    if self.ci < len(self.cuts):
                        return self._acut_pick(runnable)
                    # the last cut is reached: the threads stopped earlier finish first (in the order they were stopped),
                    # the one stopped last goes on after them
                    for c in self.cuts:
                        if c[0] != tid and c[0] in runnable:
                            return c[0]
                    return tid
            return tid
        if k == "apct":
            # PCT whose scheduling points are the anchor points only: far fewer points, so a bug of depth d is hit
            # with a much higher probability (1/(n*k^(d-1)), k = number of scheduling points)
            if not in_anchor:
                return tid
            self.apoints = getattr(self, "apoints", 0) + 1
            while self.change and self.apoints >= self.change[0]:
                self.change.pop(0)
                self.low -= 1
                self.prio[tid] = self.low
            return max(runnable, key=lambda t: self.prio[t])
        if k == "pct":
            while self.change and vstep >= self.change[0]:
                self.change.pop(0)
                self.low -= 1
                self.prio[tid] = self.low
            return max(runnable, key=lambda t: self.prio[t])
        if k == "segments":
            if self.si >= len(self.segs):
                return tid   # schedule exhausted: run to completion, finish order by id
            if self.segs[self.si][0] != tid:
                # the recorded thread is not the one running (minimised schedule): realign
                want = self.segs[self.si][0]
                return want if want in runnable else tid
            self.left -= 1
            if self.left <= 0:
                self._adv()
                while self.si < len(self.segs) and self.segs[self.si][0] not in runnable:
                    self._adv()
                if self.si < len(self.segs):
                    return self.segs[self.si][0]
            return tid
        raise ValueError(k)


class Scheduler:
    def __init__(self, policy_spec, nthreads, budget=2_000_000, anchors=None, bytecode=False):
        self.bytecode = bytecode
        self.idents = {}
        self.n = nthreads
        self.policy = Policy(policy_spec, nthreads)
        self.budget = budget
        self.anchors = anchors if anchors is not None else anchor_codes()
        self.bytecode_codes = set(self.anchors)
        self.anchors = set(self.anchors) | reader_codes()
        self.sems = [threading.Semaphore(0) for _ in range(nthreads)]
        self.done_evt = threading.Event()
        self.alive = set(range(nthreads))
        self.started = set()
        self.vstep = 0
        self.seg_steps = 0
        self.current = None
        self.abort = False
        self.segments = []       # recorded [tid, steps]
        self.switch_locs = []    # (file, line) at each pre-emptive switch
        self.events = []         # (vstep, tid, kind, opidx, outcome)
        self.anchor_depth = [0] * nthreads
        self.apoints = [0] * nthreads
        self.writer_depth = [0] * nthreads
        self.hot_w, self.hot_r = hot_lines()
        self.hotw_points = [0] * nthreads
        self.hotr_points = [0] * nthreads
        self.wpoints = [0] * nthreads      # points inside the lazily-initialising (writer) anchors
        self.rpoints = [0] * nthreads      # points inside reader anchors only
        self.mid_op = [False] * nthreads
        self.probes = {}
        self.nontrivial_switches = 0
        self.errors = []         # harness-level problems
        self.blocked = {}        # tid -> lock object (cooperative locks)

    # -- tracing -------------------------------------------------------------------------
    def _tracer(self, tid):
        anchors = self.anchors

        writers = self.bytecode_codes

        last_line = {}      # id(frame) -> line of the last line event taken in that frame

        def local(frame, event, arg):
            if event == "line":
                # CPython 3.12 repeats the line event of a line when control comes back into it from a call it made
                # the first time that code runs in the process (before the call site is specialised), and not later:
                # consecutive events for one line of one frame count once, so that a run does not depend on what the
                # process executed before
                key = id(frame)
                if last_line.get(key) != frame.f_lineno:
                    last_line[key] = frame.f_lineno
                    self.point(tid, frame)
            elif event == "return":
                last_line.pop(id(frame), None)
                if frame.f_code in anchors:
                    self.anchor_depth[tid] -= 1
                    if frame.f_code in writers:
                        self.writer_depth[tid] -= 1
            return local

        def glob(frame, event, arg):
            code = frame.f_code
            if code.co_filename.startswith(UTYPE_DIR):
                if code in anchors:
                    self.anchor_depth[tid] += 1
                    if code in writers:
                        self.writer_depth[tid] += 1
                return local
            return None
        return glob

    def probe(self, name, k=1):
        self.probes[name] = self.probes.get(name, 0) + k

    def runnable(self):
        return sorted(t for t in self.alive if t not in self.blocked)

    def point(self, tid, frame=None, boundary=False, instr=None):
        """A pre-emption point executed by the baton holder."""
        if self.abort:
            raise StepBudgetExceeded("aborted")
        self.vstep += 1
        self.seg_steps += 1
        if self.vstep > self.budget:
            self.abort = True
            raise StepBudgetExceeded(f"{self.vstep} virtual steps")
        in_anchor = self.anchor_depth[tid] > 0
        region = None
        hot = None
        if frame is not None:
            key = (frame.f_code.co_filename, frame.f_lineno)
            if key in self.hot_w:
                hot = "W"
                self.hotw_points[tid] += 1
            elif key in self.hot_r:
                hot = "R"
                self.hotr_points[tid] += 1
        self.policy.hot = hot
        if in_anchor:
            self.apoints[tid] += 1
            if self.writer_depth[tid] > 0:
                self.wpoints[tid] += 1
                region = "w"
            else:
                self.rpoints[tid] += 1
                region = "r"
        self.policy.region = region
        self.policy.boundary = boundary
        nxt = self.policy.choose(tid, self.vstep, self.seg_steps, in_anchor, self.runnable())
        if nxt != tid:
            self.switch(tid, nxt, frame, boundary, instr)

    def switch(self, me, other, frame=None, boundary=False, instr=None):
        self.segments.append([me, self.seg_steps])
        if frame is not None:
            loc = (os.path.basename(frame.f_code.co_filename), frame.f_lineno)
        elif instr is not None:
            loc = ("<bytecode>" + instr[0], instr[1])
            self.probe("switch_between_bytecodes")
        else:
            loc = ("<boundary>", 0)
        self.switch_locs.append(loc)
        others_mid = [t for t in self.alive if t != me and self.mid_op[t]]
        if not boundary and self.mid_op[me] and others_mid:
            in_anchor = self.anchor_depth[me] > 0 or any(self.anchor_depth[t] > 0 for t in others_mid)
            if in_anchor:
                self.nontrivial_switches += 1
            if self.anchor_depth[me] > 0 and any(self.anchor_depth[t] > 0 for t in others_mid):
                self.probe("two_threads_in_anchor")
        self.seg_steps = 0
        self.current = other
        self.sems[other].release()
        self.sems[me].acquire()
        if self.abort:
            raise StepBudgetExceeded("aborted")

    def block(self, me, lock):
        """Baton holder `me` cannot take `lock`: park it until the lock is released."""
        self.blocked[me] = lock
        run = self.runnable()
        if not run:
            self.blocked.pop(me, None)
            self.errors.append("deadlock: all remaining threads blocked on locks")
            self.abort = True
            raise StepBudgetExceeded("deadlock")
        # +1: like a finishing segment, a blocking segment must not be cut short by replay
        self.segments.append([me, self.seg_steps + 1])
        self.switch_locs.append(("<lock>", 0))
        self.seg_steps = 0
        nxt = self.policy.next_after_finish(me, run)
        self.current = nxt
        self.sems[nxt].release()
        self.sems[me].acquire()
        if self.abort:
            raise StepBudgetExceeded("aborted")

    def unblock(self, lock):
        for t in [t for t, l in self.blocked.items() if l is lock]:
            self.blocked.pop(t, None)

    def finish(self, tid):
        # +1: a finishing segment must never be exhausted by replay before the thread really ends
        self.segments.append([tid, self.seg_steps + 1])
        self.seg_steps = 0
        self.alive.discard(tid)
        run = self.runnable()
        if run:
            nxt = self.policy.next_after_finish(tid, run)
            self.current = nxt
            self.sems[nxt].release()
        elif self.alive:
            self.errors.append("deadlock: all remaining threads blocked")
            self.abort = True
            for t in list(self.alive):
                self.sems[t].release()
        else:
            self.done_evt.set()

    # -- running -------------------------------------------------------------------------
    def run(self, programs, describe=None):
        """programs: list (per thread) of lists of zero-arg callables. Returns per-thread outcome lists."""
        results = [[None] * len(p) for p in programs]

        def body(tid):
            self.idents[threading.get_ident()] = tid
            self.sems[tid].acquire()
            if self.abort:
                self.finish(tid)
                return
            sys.settrace(self._tracer(tid))
            try:
                for i, op in enumerate(programs[tid]):
                    self.point(tid, None, boundary=True)
                    self.events.append((self.vstep, tid, "invoke", i))
                    self.mid_op[tid] = True
                    try:
                        out = ("ok", op())
                    except StepBudgetExceeded:
                        raise
                    except BaseException as e:  # noqa
                        out = ("exc", e)
                    self.mid_op[tid] = False
                    self.anchor_depth[tid] = 0
                    self.writer_depth[tid] = 0
                    results[tid][i] = out
                    self.events.append((self.vstep, tid, "return", i))
            except StepBudgetExceeded:
                results[tid] = [r if r is not None else ("hang", None) for r in results[tid]]
            except BaseException as e:  # noqa
                self.errors.append(f"thread {tid}: {type(e).__name__}: {e}")
            finally:
                sys.settrace(None)
                self.mid_op[tid] = False
                self.finish(tid)

        ths = [threading.Thread(target=body, args=(t,), name=f"sim-{t}", daemon=True) for t in range(self.n)]
        if self.bytecode:
            self.bytecode = bytecode_events(self.bytecode_codes, True)
        CURRENT[0] = self
        for t in ths:
            t.start()
        first = self.policy.first(self.runnable())
        self.current = first
        self.sems[first].release()
        if not self.done_evt.wait(timeout=300):
            self.errors.append("scheduler wall time-out (300 s)")
            self.abort = True
            for t in range(self.n):
                self.sems[t].release()
        for t in ths:
            t.join(timeout=10)
        CURRENT[0] = None
        if self.bytecode:
            bytecode_events(self.bytecode_codes, False)
        return results

    def interleaving_hash(self):
        return kernel.digest_of(self.switch_locs)

    def merged_segments(self):
        out = []
        for t, n in self.segments:
            if n <= 0:
                continue
            if out and out[-1][0] == t:
                out[-1][1] += n
            else:
                out.append([t, n])
        return out
