"""Fault kit: harness-owned leaf types whose converter is registered through utype's public
`register_transformer` seam, caller-supplied input objects that can fail mid-iteration, and
hook-call fault points. A fault plan is plain data; every site counts how often it fired.
"""
from collections import Counter


class SimFault(Exception):
    """Custom exception class used as one of the injected kinds."""


EXC_CLASSES = {
    "TypeError": TypeError,
    "ValueError": ValueError,
    "KeyError": KeyError,
    "OSError": OSError,
    "ZeroDivisionError": ZeroDivisionError,
    "AttributeError": AttributeError,
    "IndexError": IndexError,
    "RuntimeError": RuntimeError,
    "StopIteration": StopIteration,
    "SimFault": SimFault,
    "ParseError": None,  # filled after bootstrap
}
EXC_NAMES = list(EXC_CLASSES)


class State:
    def __init__(self):
        self.fail = {}          # payload id -> exception class name (persistent)
        self.transient = {}     # payload id -> remaining failures
        self.calls = Counter()  # payload id -> converter invocations
        self.fired = Counter()  # fault kind -> times it actually raised
        self.hook_calls = Counter()  # hook site -> calls
        self.hook_fail = {}     # hook site -> {n: exc name}  (n-th call, 1-based)
        self.input_calls = Counter()
        self.input_fail = {}    # (obj tag, method) -> {n: exc name}
        self.log = []           # converter side log (optional)


STATE = State()


def reset():
    global STATE
    STATE = State()


def _raise(kind, name, detail):
    STATE.fired[kind] += 1
    cls = EXC_CLASSES.get(name)
    if cls is None:
        from utype.utils.exceptions import ParseError
        cls = ParseError
    raise cls(f"injected {kind} {detail}")


def set_plan(faults):
    """faults: {"leaf": {pid: excname}, "transient": {pid: [excname, k]}, "hook": {site: {n: exc}},
    "input": {"tag.method": {n: exc}}} -- all keys optional, JSON friendly (string keys)."""
    st = STATE
    for pid, name in (faults.get("leaf") or {}).items():
        st.fail[int(pid)] = name
    for pid, (name, k) in (faults.get("transient") or {}).items():
        st.transient[int(pid)] = [name, int(k)]
    for site, d in (faults.get("hook") or {}).items():
        st.hook_fail[site] = {int(n): e for n, e in d.items()}
    for site, d in (faults.get("input") or {}).items():
        st.input_fail[site] = {int(n): e for n, e in d.items()}


def hook_point(site):
    """Called by harness-written hooks (pre_validate, __validate__, setters, factories...)."""
    st = STATE
    st.hook_calls[site] += 1
    d = st.hook_fail.get(site)
    if d:
        name = d.get(st.hook_calls[site])
        if name:
            _raise("hook_fail", name, f"{site}#{st.hook_calls[site]}")


# ----------------------------------------------------------------------------- leaves

class Raw:
    """An unconverted payload as a caller would hand it in."""
    __slots__ = ("pid",)

    def __init__(self, pid):
        self.pid = pid

    def __eq__(self, other):
        return isinstance(other, Raw) and other.pid == self.pid

    def __hash__(self):
        return hash(("raw", self.pid))

    def __repr__(self):
        return f"Raw({self.pid})"

    def __canon__(self):
        return ["Raw", self.pid]


class RawU(Raw):
    """A payload that is not hashable as it is given (like a JSON object or array among the items of a set)."""
    __slots__ = ()
    __hash__ = None

    def __repr__(self):
        return f"RawU({self.pid})"


class LeafBase:
    __slots__ = ("pid",)
    TAG = "L"

    def __init__(self, pid):
        self.pid = pid

    def __eq__(self, other):
        return type(other) is type(self) and other.pid == self.pid

    def __hash__(self):
        return hash((self.TAG, self.pid))

    def __repr__(self):
        return f"{self.TAG}({self.pid})"

    def __canon__(self):
        return [self.TAG, self.pid]


class Leaf(LeafBase):
    __slots__ = ()
    TAG = "Leaf"


class Leaf2(LeafBase):
    """Second leaf type with its own fault namespace (pid + 1000) for union branches."""
    __slots__ = ()
    TAG = "Leaf2"


class KeyLeaf(LeafBase):
    __slots__ = ()
    TAG = "KeyLeaf"


LEAF_TYPES = {"leaf": Leaf, "leaf2": Leaf2, "keyleaf": KeyLeaf}
LEAF_OFFSET = {Leaf: 0, Leaf2: 1000, KeyLeaf: 2000}


def fault_id(t, pid):
    return pid + LEAF_OFFSET[t]


def _leaf_converter(transformer, data, t):
    st = STATE
    if isinstance(data, LeafBase):
        pid = data.pid
    elif isinstance(data, Raw):
        pid = data.pid
    else:
        st.fired["leaf_reject_foreign"] += 1
        raise TypeError(f"not a payload: {type(data).__name__}")
    if isinstance(data, Raw) and getattr(transformer, "no_explicit_cast", False):
        # like '1' -> int: a payload is not yet a leaf, turning it into one is an explicit cast
        # (union parsing first tries every branch in this strict mode)
        st.fired["leaf_strict_reject"] += 1
        raise TypeError("payload needs an explicit cast")
    fid = pid + LEAF_OFFSET[t]
    st.calls[fid] += 1
    tr = st.transient.get(fid)
    if tr and tr[1] > 0:
        tr[1] -= 1
        _raise("leaf_transient", tr[0], f"leaf#{fid}")
    name = st.fail.get(fid)
    if name:
        _raise("leaf_fail", name, f"leaf#{fid}")
    return t(pid)


def register_leaves():
    """(Re)register the leaf converter in the (freshly restored) global registry. Priority -1: a constrained type
    built on a leaf (rule_leaves) is also a subclass of the leaf and must keep resolving to utype's own Rule converter."""
    import utype
    utype.register_transformer(Leaf, Leaf2, KeyLeaf, priority=-1)(_leaf_converter)


_RULE_LEAVES = {}
_DC_ITEM = {}


def dc_item():
    """A small data class used as a container element: field `a` is left out when invalid (exclude), has a default and
    depends on the optional `b`; `l` is a leaf."""
    if not _DC_ITEM:
        from utype import Schema, Field
        ns = {"__annotations__": {"a": int, "b": int, "l": Leaf}, "__module__": "verif_item", "__qualname__": "Item",
              "a": Field(default=0, on_error="exclude", dependencies=["b"]), "b": Field(required=False), "l": Field(required=False)}
        import sys
        import types
        sys.modules.setdefault("verif_item", types.ModuleType("verif_item"))
        _DC_ITEM["cls"] = type("Item", (Schema,), ns)
    return _DC_ITEM["cls"]


def rule_leaves():
    """Constrained (Rule) types whose origin is a harness leaf: their conversion goes through Rule.parse (error lists,
    raise_error) and still fails exactly when the injected fault set says so. Same fault ids as their origin."""
    if not _RULE_LEAVES:
        from utype import Rule

        class RLeaf(Leaf, Rule):
            pass

        class RKey(KeyLeaf, Rule):
            pass
        _RULE_LEAVES["rleaf"] = RLeaf
        _RULE_LEAVES["rkey"] = RKey
    return _RULE_LEAVES


def leaf_fails(t, pid):
    return (pid + LEAF_OFFSET[t]) in STATE.fail


# ----------------------------------------------------------------------------- faulty inputs

class FaultyList(list):
    """A caller-supplied list whose dunder protocol can fail at the n-th call."""
    tag = "fl"

    def _pt(self, m):
        st = STATE
        site = f"{self.tag}.{m}"
        st.input_calls[site] += 1
        d = st.input_fail.get(site)
        if d:
            name = d.get(st.input_calls[site])
            if name:
                _raise("input_fail", name, f"{site}#{st.input_calls[site]}")

    def __iter__(self):
        self._pt("__iter__")
        for x in list.__iter__(self):
            self._pt("__next__")
            yield x

    def __len__(self):
        self._pt("__len__")
        return list.__len__(self)

    def __getitem__(self, i):
        self._pt("__getitem__")
        return list.__getitem__(self, i)


class FaultyDict(dict):
    tag = "fd"

    def _pt(self, m):
        st = STATE
        site = f"{self.tag}.{m}"
        st.input_calls[site] += 1
        d = st.input_fail.get(site)
        if d:
            name = d.get(st.input_calls[site])
            if name:
                _raise("input_fail", name, f"{site}#{st.input_calls[site]}")

    def items(self):
        self._pt("items")
        for kv in list(dict.items(self)):
            self._pt("items.next")
            yield kv

    def keys(self):
        self._pt("keys")
        return dict.keys(self)

    def __iter__(self):
        self._pt("__iter__")
        return dict.__iter__(self)

    def __len__(self):
        self._pt("__len__")
        return dict.__len__(self)

    def __getitem__(self, k):
        self._pt("__getitem__")
        return dict.__getitem__(self, k)

    def get(self, k, d=None):
        self._pt("get")
        return dict.get(self, k, d)
