"""Virtual step clock: counts source-line events executed inside utype frames (sys.settrace) and
stops a run that exceeds its budget by raising a BaseException subclass from the tracer, so the
library's `except Exception` clauses cannot swallow it. No wall clock involved."""
import os
import sys

from . import kernel

UTYPE_DIR = os.path.join(os.path.realpath(kernel.REPO), "utype") + os.sep


class StepBudgetExceeded(BaseException):
    pass


class StepClock:
    def __init__(self, budget):
        self.budget = budget
        self.steps = 0
        self.last = None
        self._prev = None

    def _global(self, frame, event, arg):
        if frame.f_code.co_filename.startswith(UTYPE_DIR):
            return self._local
        return None

    def _local(self, frame, event, arg):
        if event == "line":
            self.steps += 1
            if self.steps > self.budget:
                self.last = (os.path.basename(frame.f_code.co_filename), frame.f_code.co_name, frame.f_lineno)
                raise StepBudgetExceeded(f"{self.steps} steps at {self.last}")
        return self._local

    def __enter__(self):
        self._prev = sys.gettrace()
        sys.settrace(self._global)
        return self

    def __exit__(self, *a):
        sys.settrace(self._prev)
        return False
