#!/venv/bin/python
"""CLI entry: ./check <ID> [--tier quick|thorough] [--replay file]   (see sim/runner.py)"""
import os
import sys

sys.dont_write_bytecode = True
HERE = os.path.dirname(os.path.abspath(__file__))
if HERE not in sys.path:
    sys.path.insert(0, HERE)

from sim.runner import main  # noqa: E402

if __name__ == "__main__":
    sys.exit(main())
