"""
C16 finding 4 (regression of repair 64fe665 "a set whose elements are given unhashable ... was refused as a whole"):
inside Set[T] / FrozenSet[T] (a constrained type whose origin is a set and that has element types) a TypeError raised by
the converter registered for the set type is swallowed; the library then converts with the converter of `list` and
builds the set with a direct `cls.__origin__(result)` call.  The verdict of the matching registration for `set` is
overruled by a route that never consults the registry for `set` again.

The statement requires: "At any moment, the converter used for a type is the matching registration with the highest
priority, the most recent one winning ties ... a registration made after a type has already been converted takes effect
for the next conversion of that type".  A plain `set` annotation obeys the new registration, Set[int] does not.
(Raising TypeError is how every built-in converter of the library refuses an input.)
"""
import sys
import warnings
from typing import FrozenSet, Set

warnings.simplefilter("ignore")

import utype

pass  # (run with PYTHONPATH pointing at the utype tree to look at)

from utype import Schema, register_transformer
from utype.utils.transform import TypeTransformer

failed = False


class Data(Schema):
    plain: set = None
    typed: Set[int] = None
    frozen: FrozenSet[int] = None


def attempt(**kw):
    try:
        inst = Data(**kw)
        return repr(next(v for v in (inst.plain, inst.typed, inst.frozen) if v is not None))
    except Exception as e:  # noqa
        return "refused"


print("before the registration (built-in converter: any sequence becomes a set)")
for name in ("plain", "typed", "frozen"):
    print(f"  {name}=[1, 2] ->", attempt(**{name: [1, 2]}))

calls = []


@register_transformer(set, frozenset)
def only_sets(transformer, data, t):
    # the most recent matching registration for set / frozenset: accepts sets only
    calls.append(t.__name__)
    if not isinstance(data, (set, frozenset)):
        raise TypeError(f"{type(data).__name__} given where a set is required")
    return t(data)


assert TypeTransformer.registry.resolve(set) is only_sets and TypeTransformer.registry.resolve(frozenset) is only_sets

print("after register_transformer(set, frozenset)(only_sets): the converter for set refuses a list")
for name, label in (("plain", "set"), ("typed", "Set[int]"), ("frozen", "FrozenSet[int]")):
    del calls[:]
    got = attempt(**{name: [1, 2]})
    ok = got == "refused"
    if not ok:
        failed = True
    print(f"  {label:15} given [1, 2]: got {got}, converter calls {calls}; the statement requires 'refused' "
          f"(the matching registration decides) -> {'ok' if ok else 'VIOLATION'}")

# what a set still does
print("  Set[int] given {'1', 2} ->", attempt(typed={"1", 2}))

print()
if failed:
    print("VIOLATION: Rule.parse catches the TypeError of the registered set converter, converts with the `list` "
          "converter instead and constructs the set itself")
    sys.exit(1)
print("no violation")
sys.exit(0)
