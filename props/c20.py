"""C20 -- concurrent use is safe, including the first use of a type.

2-3 simulated caller threads (real threads, one baton, sys.settrace line pre-emption inside utype/) perform
first and subsequent parses on shared declarations and registries. Oracle: linearizability against the real
code run sequentially in fresh twin worlds -- the concurrent run's per-operation outcomes must equal those of
at least one sequential order consistent with the observed real-time order.
"""
import copy
import itertools
import json
import traceback

from sim import kernel, faults
from sim.runner import RunResult
from sim.threads import Scheduler, anchor_codes
from sim.vclock import UTYPE_DIR

ID = "C20"
RULE = ("plan = (scenario W1 pending module-level forward refs / W2 function-local self-referencing classes / W3 conversions "
        "racing registrations / W4 concurrent decoration + first calls / W5 warmed steady state / W6 a thread declaring new classes "
        "with the same annotation spellings while others make first parses, world parameters, 2-3 threads "
        "x 1-3 operations, schedule policy uniform/targeted/quantum/pct/anchor-pct/anchor-cuts/sequential with its private seed); non-trivial = >=1 "
        "pre-emptive switch while >=2 threads are in the middle of an operation and one of them is inside an anchor function "
        "(resolve_forward_refs, apply_for, TypeRegistry.register/resolve, ...); distinct by hash of the switch-location sequence")
ASSUMPTIONS = [
    "pre-emption granularity is one source line of utype/; in a share of the runs (plan.bytecode) additionally every bytecode instruction of the anchor functions (resolve_forward_refs, apply_for, TypeRegistry.register/resolve, Rule/LogicalType forward-ref functions) via sys.monitoring",
    "operations that touch no shared utype state between line events (C-level dict/list operations) are atomic under the GIL",
    "oracle = some sequential order of the same operations on a fresh world, consistent with the observed invoke/return order; if sequential outcomes themselves depend on order, any consistent order is accepted",
    "at most 6 operations per run (all consistent sequential orders are tried)",
    "free-threaded CPython is out of scope",
]
COMPONENTS = {
    "real": ["BaseParser.resolve_forward_refs / apply_for / __parsers__", "Rule/LogicalType forward-ref resolution", "ParserField.resolve_forward_refs",
             "TypeRegistry.register/resolve + caches (transformer and encoder)", "ClassParser/FunctionParser", "Schema init", "typing generic-alias cache (CPython)"],
    "stub": ["OS scheduler (replaced by the baton scheduler)", "caller threads' programs", "tagged converter functions"],
}
TIERS = {
    "quick": {"runs": 6000, "chunk": 40, "selftest": 32, "minimise_s": 60},
    "thorough": {"budget_s": 900, "chunk": 100, "selftest": 256, "minimise_s": 120},
}
PROBES = ["profiled_write_cut", "two_threads_in_anchor", "switch_in_resolve_forward_refs", "switch_in_registry", "switch_between_bytecodes", "lock_contended",
          "sequential_orders_disagree", "linearized_by_non_invoke_order"]


# ----------------------------------------------------------------------------- worlds

SPELL_OPT = ["Optional['B']", "'B'", "Union['B', None]", "Optional[B]"]
SPELL_MANY = ["List['B']", "Dict[str, 'B']", "List[Optional['B']]", "Tuple['B', ...]"]


def w1_source(p):
    """Module-level classes; B is referenced by A before B exists -> refs pending until the first parse."""
    lines = ["from utype import Schema, Field, Options", "import utype",
             "from typing import List, Optional, Dict, Union, Tuple, Iterator", ""]
    a = ["class A(Schema):"]
    if p.get("collect"):
        a.append("    __options__ = Options(collect_errors=True)")
    a.append("    x: int")
    a.append(f"    b: {p['b_ann']} = None")
    a.append(f"    bs: {p['bs_ann']} = Field(default_factory={'dict' if p['bs_ann'].startswith('Dict') else 'list'})")
    if p.get("constrained"):
        a.append("    pb: 'B' = Field(required=False, description='with field config')")
    b = ["class B(Schema):", "    y: int = Field(ge=0)", "    a: Optional['A'] = None", "",
         "class Q(Schema):", "    q: int = 0", "    m: Optional['Missing'] = None      # a name that never exists: every first use fails"]
    f = ["@utype.parse", "def f(a: 'A', n: int = 0) -> 'B':", "    return {'y': a.x + n}", "",
         "@utype.parse", "def gen(n: int = 1) -> Iterator['B']:", "    for i in range(n):", "        yield {'y': i}"]
    if p.get("b_ann") == "Optional[B]":
        order = [b, a, f]   # direct reference: B must exist first (control scenario, nothing pending in A)
        b[2] = "    a: Optional['A'] = None"
    elif p.get("func_first"):
        order = [f, a, b]
    else:
        order = [a, b, f]
    for blk in order:
        lines += blk + [""]
    if p.get("sub"):
        # a subclass that declares nothing pending itself: what is pending sits in its base's parser
        lines += ["class SA(A):", "    extra: int = 0", ""]
    return "\n".join(lines)


def w2_source(p):
    return "\n".join([
        "from utype import Schema, Field", "import utype", "from typing import List, Optional", "",
        "def make(u):",
        "    class Loc(Schema):",
        "        num: int = u",
        "        to_self: Optional['Loc'] = None",
        "        list_self: List['Loc'] = Field(default_factory=list)",
        "    return Loc",
        "",
        "def use(u):",
        "    Loc = make(u)",
        "    d = Loc(to_self={'to_self': {}}, list_self=[{'list_self': []}])",
        "    return [d.to_self.to_self.num, d.list_self[0].num, d.num]",
        ""])


def w3_source(p):
    return "\n".join([
        "from utype import Schema, Field", "import utype, json", "from typing import List, Optional", "",
        "class T:",
        "    def __init__(self, v, tag='init'):",
        "        self.v = v; self.tag = tag",
        "    def __canon__(self):",
        "        return ['T', self.v, self.tag]",
        "class TS(T):",
        "    def __canon__(self):",
        "        return ['TS', self.v, self.tag]",
        "def conv(tag):",
        "    def c(transformer, data, t):",
        "        return t(getattr(data, 'v', data), tag)",
        "    c.__name__ = 'conv_' + tag",
        "    return c",
        "def enc(tag):",
        "    def e(o):",
        "        return [tag, o.v]",
        "    return e",
        "utype.register_transformer(T)(conv('base'))",
        "utype.register_encoder(T)(enc('base'))",
        "class H(Schema):",
        "    t: T = None",
        "    ts: List[TS] = Field(default_factory=list)",
        ""])


def w4_source(p):
    return "\n".join([
        "from utype import Schema, Field", "import utype", "from typing import List, Optional", "",
        "class P(Schema):",
        "    n: int = Field(ge=0)",
        "def g(p: P, k: int = 1) -> List[int]:",
        "    return [p.n] * k",
        "async def h(p: P) -> int:",
        "    return str(p.n)",
        ""])


def w7_api_source(p):
    """A second module: a parsed function whose annotation is spelled like A's, but B is not defined there (an import
    under TYPE_CHECKING only): its reference stays pending for good, every call re-tries and fails the same way."""
    return "\n".join(["import utype", "from typing import List, Optional, Dict, Union, Tuple", "",
                      "@utype.parse", f"def handle(item: {p['b_ann']} = None, n: int = 0):", "    return [item, n]", ""])


SOURCES = {"W7": w1_source, "W1": w1_source, "W2": w2_source, "W3": w3_source, "W4": w4_source, "W5": w1_source, "W6": w1_source}


def w6_declaration(p, name, how="class"):
    """A class declared by a running thread; its annotations are spelled exactly like A's, so typing's alias cache hands it
    the very ForwardRef objects that A's first parse is evaluating at that moment."""
    if how == "fn_kwargs":
        # the same spelling as the type of the variadic keyword arguments of a function
        return "\n".join(["@utype.parse", f"def {name}(z: int = 0, **extra: {p['bs_ann']}):", "    return [z, sorted(extra)]", ""])
    if how == "fn_return":
        # ... as the return annotation of a function (parsed after the parser's locked set-up)
        empty = "{}" if p["bs_ann"].startswith("Dict") else "[]"
        return "\n".join(["@utype.parse", f"def {name}(z: int = 0, *rest: {p['b_ann']}) -> {p['bs_ann']}:", f"    return {empty}", ""])
    if how == "cls_addition":
        return "\n".join([f"class {name}(Schema):", f"    __options__ = Options(addition={p['bs_ann']})", "    z: int = 0", ""])
    if how == "other_union":
        # another module with a class B of its own: the library's operator builds `cond | <the same spelling>` in the class
        # body, outside any parser (the reference object is the one A's first parse is evaluating)
        return "\n".join(["from utype import Schema, Field, Options", "from utype.types import PositiveInt", "from typing import List, Dict, Optional, Tuple, Union", "",
                          "class B(Schema):", "    w: int = 0", "",
                          f"class {name}(Schema):", f"    v: PositiveInt | {p['bs_ann']} = 1", ""])
    return "\n".join([
        f"class {name}(Schema):",
        "    z: int = 0",
        f"    b: {p['b_ann']} = None",
        f"    bs: {p['bs_ann']} = Field(default_factory={'dict' if p['bs_ann'].startswith('Dict') else 'list'})",
        ""])


def build_world(plan):
    kernel.reset_world()
    faults.register_leaves()
    mod = kernel.make_module("verif_c20_mod", SOURCES[plan["scenario"]](plan["params"]))
    if plan["scenario"] == "W7":
        mod.__dict__["api_"] = kernel.make_module("verif_c20_api", w7_api_source(plan["params"]))
    if plan["scenario"] == "W5":
        # steady state: every declaration has been used once before the threads start
        for warm in (lambda: mod.A(x=0, b={"y": 0}, bs=_bs_value(plan["params"], [{"y": 0}])),
                     lambda: mod.B(y=0, a={"x": 0}), lambda: mod.f({"x": 1})):
            try:
                warm()
            except Exception:  # noqa  (what a warm-up returns is not judged here)
                pass
    return mod


def _bs_value(params, items):
    if params["bs_ann"].startswith("Dict"):
        return {"k%d" % i: v for i, v in enumerate(items)}
    return items


# ----------------------------------------------------------------------------- operations

def run_op(mod, op, params):
    import utype
    k = op["op"]
    if k == "init":
        cls = getattr(mod, op["cls"])
        data = dict(op["data"])
        if "bs" in data:
            data["bs"] = _bs_value(params, data["bs"])
        return cls(**data)
    if k == "call":
        return mod.f(*op.get("args", []), **op.get("kwargs", {}))
    if k == "gen":
        return list(mod.gen(op["n"]))
    if k == "handle":
        return mod.api_.handle(op["item"], n=op.get("n", 0))
    if k == "transform":
        return utype.type_transform(op["value"], getattr(mod, op["cls"]))
    if k == "local":
        return mod.use(op["u"])
    if k == "declare":
        how = op.get("how", "class")
        if how == "other_union":
            om = kernel.make_module("verif_c20_o_" + op["name"], w6_declaration(params, op["name"], how))
            cls = getattr(om, op["name"])
            if op.get("use") is None:
                return ["declared"]
            v = _bs_value(params, [{"w": "3"}])
            return dict(cls(v=tuple(v) if params["bs_ann"].startswith("Tuple") else v))
        kernel.exec_into(mod, w6_declaration(params, op["name"], how))
        cls = getattr(mod, op["name"])
        if op.get("use") is None:
            return ["declared"]
        if how == "fn_return":
            return cls(1)
        if how != "class":
            extra = {"e1": _bs_value(params, [{"y": 3}])}
            return cls(z=1, **extra) if how == "fn_kwargs" else dict(cls(z=1, **extra))
        data = dict(op["use"])
        if "bs" in data:
            data["bs"] = _bs_value(params, data["bs"])
        return cls(**data)
    if k == "convert":
        cls = getattr(mod, op["cls"])
        return utype.type_transform(op["value"], cls)
    if k == "convert_field":
        # one conversion per operation: a parse that converts several values while a registration lands
        # between them may legitimately see the old converter for one and the new one for the other
        if op.get("field", "t") == "t":
            return mod.H(t=op["value"])
        return mod.H(ts=[op["value"]])
    if k == "register":
        cls = [getattr(mod, c) for c in op["classes"]]
        utype.register_transformer(*cls, allow_subclasses=op.get("sub", True), priority=op.get("priority", 0))(mod.conv(op["tag"]))
        return None
    if k == "register_encoder":
        cls = [getattr(mod, c) for c in op["classes"]]
        utype.register_encoder(*cls)(mod.enc(op["tag"]))
        return None
    if k == "encode":
        return json.dumps({"v": getattr(mod, op["cls"])(op["value"])}, cls=utype.JSONEncoder)
    if k == "decorate_call":
        w = utype.parse(getattr(mod, op["fn"]))
        if op["fn"] == "h":
            co = w(*op["args"])
            try:
                while True:
                    co.send(None)
            except StopIteration as e:
                return e.value
        return w(*op["args"])
    if k == "apply_for":
        from utype.parser.func import FunctionParser
        parser = FunctionParser.apply_for(getattr(mod, op["fn"]))
        return sorted(parser.fields)
    raise ValueError(k)


def outcome(o):
    if o is None:
        return ["none"]
    tag, v = o
    if tag == "ok":
        return ["ok", kernel.canon_mapping_unordered(kernel.canon(v))]
    if tag == "hang":
        return ["hang"]
    from utype.utils.exceptions import ParseError
    if isinstance(v, ParseError):
        return ["exc", "ParseError"]
    return ["exc", type(v).__name__]


def innermost_utype_function(e):
    tb = traceback.extract_tb(e.__traceback__) if e is not None else []
    last = "-"
    for fr in tb:
        if fr.filename.startswith(UTYPE_DIR):
            last = f"{fr.filename.split('/')[-1]}:{fr.name}"
    return last


# ----------------------------------------------------------------------------- generation

def _gen_ops_w1(rng, params, n):
    ops = []
    for _ in range(n):
        r = rng.random()
        if r < 0.05:
            # the yield type of a generator function is one more lazily rewritten piece of shared state
            ops.append({"op": "gen", "n": rng.choice([1, 2])})
            continue
        r = rng.random()
        if r < 0.08:
            # a first use that fails (unresolvable name): it must not take anything with it that others need
            ops.append({"op": "init", "cls": "Q", "data": {"q": 1}})
        elif r < 0.35:
            d = {"x": rng.choice([1, "2", 3])}
            if rng.random() < 0.7:
                d["b"] = {"y": rng.choice([1, "2", -1])}
            if rng.random() < 0.6:
                d["bs"] = [{"y": rng.choice([0, 5, -3, "7"])} for _ in range(rng.choice([1, 2]))]
            if params.get("constrained") and rng.random() < 0.5:
                d["pb"] = {"y": rng.choice([1, -1])}
            ops.append({"op": "init", "cls": "SA" if params.get("sub") and rng.random() < 0.5 else "A", "data": d})
        elif r < 0.55:
            ops.append({"op": "init", "cls": "B", "data": {"y": rng.choice([1, -1]),
                                                            "a": {"x": 1, "b": {"y": rng.choice([2, -2])}}}})
        elif r < 0.8:
            ops.append({"op": "call", "args": [{"x": rng.choice([1, "3"]), "b": {"y": 1}}], "kwargs": {"n": rng.choice([0, 1, -5])}})
        else:
            ops.append({"op": "transform", "cls": "A", "value": {"x": 1, "bs": [{"y": 1, "a": {"x": 2}}]}})
    return ops


def generate(rng, tier):
    sc = rng.choice(["W1", "W1", "W1", "W2", "W3", "W3", "W4", "W5", "W6", "W6", "W7"])
    nthreads = rng.choice([2, 2, 2, 3])
    plan = {"prop": ID, "scenario": sc, "params": {}}
    counts = [rng.choice([1, 1, 2]) for _ in range(nthreads)]
    while sum(counts) > 6:
        counts[counts.index(max(counts))] -= 1
    if sc in ("W1", "W5", "W6", "W7"):
        p = {"b_ann": rng.choice(SPELL_OPT[:3] if sc != "W5" else SPELL_OPT), "bs_ann": rng.choice(SPELL_MANY),
             "collect": rng.random() < 0.3, "constrained": rng.random() < 0.4, "func_first": rng.random() < 0.4,
             "sub": rng.random() < 0.3}
        plan["params"] = p
        plan["threads"] = [_gen_ops_w1(rng, p, c) for c in counts]
        if sc == "W1" and rng.random() < 0.15:
            # every thread makes the first call of the same generator function
            for ops_ in plan["threads"]:
                ops_[0] = {"op": "gen", "n": rng.choice([1, 2])}
        if sc == "W1" and p["sub"] and rng.random() < 0.4:
            # every thread starts with the first parse of the subclass
            for ops_ in plan["threads"]:
                ops_[0] = {"op": "init", "cls": "SA", "data": {"x": 1, "b": {"y": 1}}}
        if sc == "W7":
            # one thread keeps calling the function of the other module, whose reference never resolves
            t = rng.randrange(nthreads)
            plan["threads"][t] = [{"op": "handle", "item": rng.choice([{"y": "1"}, {"y": 2}, None]), "n": i} for i in range(max(1, counts[t]))]
        if sc == "W6":
            # one thread declares (and maybe uses) new classes while the others make their first parses
            t = rng.randrange(nthreads)
            plan["threads"][t] = [{"op": "declare", "name": "N%d_%d" % (t, i), "how": rng.choice(["class", "class", "fn_kwargs", "cls_addition", "fn_return", "fn_return", "other_union", "other_union"]),
                                   "use": rng.choice([None, {"z": 1, "b": {"y": 1}}, {"bs": [{"y": 2}]}])}
                                  for i in range(max(1, counts[t]))]
    elif sc == "W2":
        plan["threads"] = [[{"op": "local", "u": 10 * (t + 1) + i} for i in range(c)] for t, c in enumerate(counts)]
    elif sc == "W3" and rng.random() < 0.5:
        # the memo race needs: a lookup of K in flight, a registration for K completing, and a LATER lookup of K
        cls = rng.choice(["T", "TS"])
        how = rng.choice(["convert", "convert_field", "encode"])

        def look():
            if how == "convert":
                return {"op": "convert", "cls": cls, "value": 1}
            if how == "encode":
                return {"op": "encode", "cls": cls, "value": 5}
            return {"op": "convert_field", "value": 1, "field": "t" if cls == "T" else "ts"}
        reg = ({"op": "register_encoder", "classes": [rng.choice(["T", cls])], "tag": "e1"} if how == "encode" else
               {"op": "register", "classes": [rng.choice(["T", cls])], "tag": "r1", "sub": True, "priority": 0})
        ths = [[look(), look()], [reg]]
        if nthreads == 3:
            ths.append([look()])
        plan["threads"] = ths
    elif sc == "W3":
        ths = []
        tagn = 0
        for t, c in enumerate(counts):
            ops = []
            for i in range(c):
                r = rng.random()
                if r < 0.3:
                    tagn += 1
                    ops.append({"op": "register", "classes": [rng.choice(["T", "TS"])], "tag": "r%d" % tagn,
                                "sub": rng.random() < 0.7, "priority": rng.choice([0, 0, 1])})
                elif r < 0.4:
                    tagn += 1
                    ops.append({"op": "register_encoder", "classes": [rng.choice(["T", "TS"])], "tag": "e%d" % tagn})
                elif r < 0.65:
                    ops.append({"op": "convert", "cls": rng.choice(["T", "TS"]), "value": rng.choice([1, 2])})
                elif r < 0.85:
                    ops.append({"op": "convert_field", "value": rng.choice([1, 2]), "field": rng.choice(["t", "ts"])})
                else:
                    ops.append({"op": "encode", "cls": rng.choice(["T", "TS"]), "value": 5})
            ths.append(ops)
        plan["threads"] = ths
    else:  # W4
        ths = []
        for t, c in enumerate(counts):
            ops = []
            for i in range(c):
                r = rng.random()
                if r < 0.6:
                    ops.append({"op": "decorate_call", "fn": "g", "args": [{"n": rng.choice([1, "2", -1])}, rng.choice([1, 2])]})
                elif r < 0.8:
                    ops.append({"op": "decorate_call", "fn": "h", "args": [{"n": rng.choice([1, -1])}]})
                else:
                    ops.append({"op": "apply_for", "fn": rng.choice(["g", "h"])})
            ths.append(ops)
        plan["threads"] = ths
    r = rng.random()
    pseed = rng.randrange(1 << 30)
    if r < 0.25:
        pol = {"kind": "uniform", "p": rng.choice([0.002, 0.01, 0.05, 0.2]), "seed": pseed}
    elif r < 0.6:
        pol = {"kind": "targeted", "p_in": rng.choice([0.3, 0.5, 0.7]), "p_out": rng.choice([0.0, 0.002, 0.01]), "seed": pseed}
    elif r < 0.75:
        pol = {"kind": "quantum", "q": rng.choice([1, 2, 3, 7, 20, 100]), "seed": pseed}
    elif r < 0.85:
        pol = {"kind": "pct", "d": rng.choice([1, 2, 3]) if tier == "quick" else rng.choice([2, 3, 4, 6]), "seed": pseed}
    elif r < 0.9:
        pol = {"kind": "apct", "d": rng.choice([2, 3, 4]), "est": rng.choice([60, 150, 400]), "seed": pseed}
    elif r < 0.985:
        # stop one thread inside the lazily-initialising code after i of its points there, run another one up to its j-th
        # point in the code that reads that state, then let the first finish: the shape of a read racing an initialisation
        t1 = rng.randrange(nthreads)
        t2 = rng.choice([t for t in range(nthreads) if t != t1])
        r2 = rng.random()
        if r2 < 0.45:
            # stop t1 just before one of the stores it makes into shared state -- which one: a fraction of the number it
            # makes when it runs first and alone (profiled in a twin world) -- let t2 complete m-1 whole operations, then
            # let t1 finish: a whole operation racing a half-done initialisation / registration
            pol = {"kind": "acuts", "frac": rng.random(), "cuts": [[t1, None, "W"], [t2, rng.choice([2, 2, 3]), "O"]], "seed": pseed}
        elif r2 < 0.7:
            # count only the lines that store into / read from the lazily initialised shared state
            pol = {"kind": "acuts", "cuts": [[t1, rng.randint(1, 60), "W"], [t2, rng.randint(1, 120), "R"]], "seed": pseed}
        else:
            i = int(round(2 ** rng.uniform(0, 10.5)))
            j = int(round(2 ** rng.uniform(0, 7.5)))
            pol = {"kind": "acuts", "cuts": [[t1, i, "w"], [t2, j, rng.choice(["r", "r", "a"])]], "seed": pseed}
    else:
        pol = {"kind": "sequential", "seed": pseed}
    plan["schedule"] = pol
    # a share of the runs pre-empts between the bytecodes of the anchor functions (sys.monitoring), not only between lines
    plan["bytecode"] = rng.random() < (0.2 if tier == "quick" else 0.5)
    return plan


# ----------------------------------------------------------------------------- execution

def sequential_outcomes(plan, order):
    """Fresh twin world; run ops in the given order [(tid, idx)..] without pre-emption."""
    mod = build_world(plan)
    out = {}
    for tid, idx in order:
        op = plan["threads"][tid][idx]
        try:
            out[(tid, idx)] = outcome(("ok", run_op(mod, op, plan["params"])))
        except Exception as e:  # noqa
            out[(tid, idx)] = outcome(("exc", e))
    return out


def all_orders(plan):
    seqs = [[(t, i) for i in range(len(ops))] for t, ops in enumerate(plan["threads"])]
    total = sum(len(s) for s in seqs)

    def rec(pos, acc):
        if len(acc) == total:
            yield list(acc)
            return
        for t, s in enumerate(seqs):
            if pos[t] < len(s):
                acc.append(s[pos[t]])
                pos[t] += 1
                yield from rec(pos, acc)
                pos[t] -= 1
                acc.pop()
    yield from rec([0] * len(seqs), [])


def execute(plan):
    res = RunResult()
    nth = len(plan["threads"])
    ops_all = [(t, i) for t, ops in enumerate(plan["threads"]) for i in range(len(ops))]
    if not ops_all:
        return res

    # twin 0: threads one after the other (also gives the step estimate for PCT)
    base_order = list(ops_all)
    seq_cache = {tuple(base_order): sequential_outcomes(plan, base_order)}

    pol = copy.deepcopy(plan["schedule"])
    if pol.get("frac") is not None:
        # profile: the cut thread runs first and alone in a twin world; how many stores into shared state does it make?
        t1 = pol["cuts"][0][0]
        pmod = build_world(plan)
        prof = Scheduler({"kind": "sequential", "order": [t1] + [t for t in range(nth) if t != t1], "seed": 0}, nth, budget=400_000)
        prof.run([[(lambda op=op: run_op(pmod, op, plan["params"])) for op in ops] for ops in plan["threads"]])
        nw = prof.hotw_points[t1]
        pol["cuts"][0][1] = 1 + int(pol["frac"] * nw) if nw else 1
        res.ev("profiled-cut", t1, nw, pol["cuts"][0][1])
        res.stats["probe:profiled_write_cut"] += 1
    mod = build_world(plan)
    if pol["kind"] == "pct":
        pol.setdefault("est", 1500 * len(ops_all))
    # (apct carries its own estimate of the number of anchor points)
    sched = Scheduler(pol, nth, budget=400_000, bytecode=bool(plan.get("bytecode")))
    programs = [[(lambda op=op: run_op(mod, op, plan["params"])) for op in ops] for ops in plan["threads"]]
    results = sched.run(programs)
    if sched.errors:
        if any("deadlock" in e for e in sched.errors):
            res.violate(f"C20|{plan['scenario']}|deadlock|-", "; ".join(sched.errors))
        else:
            raise kernel.HarnessError("; ".join(sched.errors))
    res.stats["vsteps"] += sched.vstep
    res.stats["fault:preemptive_switch"] += len(sched.switch_locs)
    for k, v in sched.probes.items():
        res.stats["probe:" + k] += v
    for f, line in sched.switch_locs:
        if f == "base.py" and "utils" not in f:
            pass
    conc = {}
    excs = {}
    for t in range(nth):
        for i, o in enumerate(results[t]):
            conc[(t, i)] = outcome(o)
            if o and o[0] == "exc":
                excs[(t, i)] = o[1]
    # real-time precedence from invoke/return events
    inv, ret = {}, {}
    for vstep, tid, kind, idx in sched.events:
        (inv if kind == "invoke" else ret)[(tid, idx)] = (vstep, len(inv) + len(ret))
    seqno = {}
    for n, (vstep, tid, kind, idx) in enumerate(sched.events):
        seqno[(tid, idx, kind)] = n

    def precedes(a, b):
        ra = seqno.get((a[0], a[1], "return"))
        ib = seqno.get((b[0], b[1], "invoke"))
        return ra is not None and ib is not None and ra < ib

    for (t, i) in ops_all:
        res.ev("op", t, i, plan["threads"][t][i]["op"], conc[(t, i)])
    res.ev("segments", sched.merged_segments())
    res.recorded_segments = sched.merged_segments()
    res.interleaving = sched.interleaving_hash() if sched.switch_locs else None
    if sched.nontrivial_switches:
        res.nontrivial = res.interleaving
    in_rfr = sum(1 for f, l in sched.switch_locs if f == "base.py")
    if in_rfr:
        res.stats["probe:switch_in_resolve_forward_refs"] += 1
    if any(f == "base.py" for f, l in sched.switch_locs) and plan["scenario"] == "W3":
        res.stats["probe:switch_in_registry"] += 1

    if any(v == ["hang"] for v in conc.values()):
        res.violate(f"C20|{plan['scenario']}|hang|-", f"step budget exceeded under schedule {sched.merged_segments()[:12]}")
        return res

    def matches(order):
        key = tuple(order)
        if key not in seq_cache:
            seq_cache[key] = sequential_outcomes(plan, order)
        return all(seq_cache[key][o] == conc[o] for o in ops_all)

    # candidate 1: order of invocation; then every order consistent with real time
    by_invoke = sorted(ops_all, key=lambda o: seqno.get((o[0], o[1], "invoke"), 1 << 30))
    ok = matches(by_invoke)
    if not ok:
        tried = 0
        for order in all_orders(plan):
            posn = {o: n for n, o in enumerate(order)}
            if any(precedes(a, b) and posn[a] > posn[b] for a in ops_all for b in ops_all if a != b):
                continue
            tried += 1
            if matches(order):
                ok = True
                res.stats["probe:linearized_by_non_invoke_order"] += 1
                break
    if len({kernel.jdump(sorted((list(k), v) for k, v in d.items())) for d in seq_cache.values()}) > 1:
        res.stats["probe:sequential_orders_disagree"] += 1
    if not ok:
        # describe the first op whose outcome no sequential execution ever produced
        bad = None
        for o in ops_all:
            if all(d[o] != conc[o] for d in seq_cache.values()):
                bad = o
                break
        if bad is None:
            bad = ops_all[0]
            kind = "combination"
            where = "-"
        else:
            c = conc[bad]
            if c[0] == "exc":
                kind = "exc:" + c[1]
                where = innermost_utype_function(excs.get(bad))
            else:
                kind = "wrong_value"
                where = "-"
        seq_seen = sorted({kernel.jdump(d[bad]) for d in seq_cache.values()})
        res.violate(f"C20|{plan['scenario']}|{kind}|{where}",
                    f"thread {bad[0]} op {bad[1]} {plan['threads'][bad[0]][bad[1]]} returned {conc[bad]} under schedule "
                    f"{sched.merged_segments()[:16]}; sequential executions give {seq_seen[:3]}")
    return res


# ----------------------------------------------------------------------------- shrinking

def shrink(plan):
    # 1. pin the schedule: replace the policy by the recorded segments
    if plan["schedule"]["kind"] != "segments":
        try:
            r = execute(plan)
            segs = getattr(r, "recorded_segments", None)
        except Exception:  # noqa
            segs = None
        if segs:
            p = copy.deepcopy(plan)
            p["schedule"] = {"kind": "segments", "segments": segs}
            yield p
    else:
        segs = plan["schedule"]["segments"]
        # merge / delete segments
        for i in range(len(segs)):
            p = copy.deepcopy(plan)
            p["schedule"]["segments"].pop(i)
            yield p
        for i in range(len(segs)):
            if segs[i][1] > 1:
                for newn in (1, segs[i][1] // 2):
                    if newn != segs[i][1]:
                        p = copy.deepcopy(plan)
                        p["schedule"]["segments"][i][1] = newn
                        yield p
    # 2. drop operations / threads (schedule segments keep their thread ids)
    for t, ops in enumerate(plan["threads"]):
        for i in range(len(ops)):
            if sum(len(o) for o in plan["threads"]) > 1:
                p = copy.deepcopy(plan)
                p["threads"][t].pop(i)
                yield p
    # 3. simplify world parameters
    for k in ("collect", "constrained", "func_first"):
        if plan["params"].get(k):
            p = copy.deepcopy(plan)
            p["params"][k] = False
            yield p
    # 4. simplify op data
    for t, ops in enumerate(plan["threads"]):
        for i, op in enumerate(ops):
            if op["op"] == "init":
                for key in list(op["data"]):
                    if key not in ("x", "y"):
                        p = copy.deepcopy(plan)
                        p["threads"][t][i]["data"].pop(key)
                        yield p
