"""C08 (slice) -- generator / coroutine / async-generator wrappers of decorated functions.

Decided here: "for generators (sync, async, lazy, eager) the sequence of values yielded, sent and returned is
that of the undecorated function with each value converted to its declared type", "if any parameter fails the
body does not run" and "the returned value conforms" for coroutines -- under consumer protocols, interleaved
consumers, task scheduling on a virtual-time event loop, cancellation and timeouts.
Not decided here: the binding clause (pure function of signature and call).

Every body is a script interpreter; the consumer is a script too. The same scripts drive (a) the decorated
function and (b) a reference: the undecorated function behind an ideal proxy that applies the declared
conversions at the three points (sent -> before the body sees it, yielded -> before the consumer sees it,
returned). Histories must be equal up to the first fault; afterwards only safety invariants are required.
"""
import asyncio
import copy
import itertools

from sim import kernel, faults, aloop
from sim.runner import RunResult

ID = "C08"
RULE = ("plan = (wrapper kind sync generator | async generator | coroutine, eager or lazy, plain function | static method "
        "(parse above staticmethod, or the class decorated), collect_errors on/off, declared types none | "
        "Generator[Leaf,Leaf2,KeyLeaf] | Generator[int,float,str] | Iterator[int] (async: AsyncGenerator/AsyncIterator), 1-3 "
        "consumers each with its own instance, body script (yield/sleep/return/raise) and consumer script (call, next/send, "
        "anext/asend, throw/close/drop, pauses, per-op timeouts), interleaving (sync: seeded step order; async: SimLoop "
        "fifo/random), leaf faults on yielded/sent/returned/parameter payloads, task cancellation at a loop iteration); "
        "non-trivial = >=1 send of a non-None value, or >=2 interleaved consumers, or >=1 fault; distinct by "
        "(kind, eager, types, body scripts, consumer scripts, loop mode, cancel point)")
ASSUMPTIONS = [
    "slice: the binding clause of C08 (which argument feeds which parameter) is NOT decided here",
    "reference = the undecorated function behind an ideal proxy written in the harness; the proxy's conversions call utype.type_transform with the declared types, so conversions themselves are not modelled",
    "histories are compared per consumer (operation outcomes and what the body received), strictly up to the first throw/close/drop/cancel/timeout or conversion failure; after that only: no non-conforming value is delivered, the body is not resumed after a conversion failure, the loop reaches quiescence",
    "yielded generator objects (flattening, documented as a feature) are not part of the scripts",
]
COMPONENTS = {
    "real": ["FunctionParser.get_sync_generator/sync_from_generator", "get_async_generator/async_from_generator", "get_async_call/get_async_result",
             "parse_params/get_params (before the body)", "asyncio Task/Future/sleep/wait_for/gather (CPython) on the simulated loop"],
    "stub": ["event loop (SimLoop: virtual clock, seeded ready-queue order)", "function bodies (script interpreters)", "consumers (scripts)",
             "leaf converter (fault site)", "reference proxy"],
}
TIERS = {
    "quick": {"runs": 12000, "chunk": 100, "selftest": 64, "minimise_s": 40},
    "thorough": {"budget_s": 600, "chunk": 300, "selftest": 512, "minimise_s": 90},
}
PROBES = ["send_non_none", "interleaved_consumers", "param_failure", "yield_conversion_failure", "send_conversion_failure",
          "return_conversion_failure", "cancel_landed_mid_op", "timeout_fired", "abandoned", "throw_or_close"]

CTX = {}
EXC = {"ValueError": ValueError, "OSError": OSError, "SimFault": faults.SimFault, "KeyError": KeyError}


def val(v):
    if isinstance(v, dict) and "$r" in v:
        return faults.Raw(v["$r"])
    if isinstance(v, dict) and "$b" in v:
        return v["$b"].encode()
    return v


def cn(v):
    import inspect
    if inspect.iscoroutine(v):
        v.close()
        return ["coroutine-object"]
    return kernel.canon(v)


TYPESETS = {
    "none": {"sync": "", "async": "", "co": "", "Y": None, "S": None, "R": None},
    "leaf": {"sync": " -> Generator[Leaf, Leaf2, KeyLeaf]", "async": " -> AsyncGenerator[Leaf, Leaf2]", "co": " -> Leaf",
             "Y": "Leaf", "S": "Leaf2", "R": "KeyLeaf", "CR": "Leaf"},
    "int": {"sync": " -> Generator[int, float, str]", "async": " -> AsyncGenerator[int, float]", "co": " -> int",
            "Y": "int", "S": "float", "R": "str", "CR": "int"},
    # a bare annotation declares nothing about what is yielded, sent or returned
    "bare": {"sync": " -> Generator", "async": " -> AsyncIterator", "co": "", "Y": None, "S": None, "R": None},
    "iter": {"sync": " -> Iterator[int]", "async": " -> AsyncIterator[int]", "co": " -> int", "Y": "int", "S": None, "R": None, "CR": "int"},
}
class _Types(dict):
    def __missing__(self, k):
        if k == "PosInt":
            return posint()
        raise KeyError(k)


PYTYPES = _Types({"Leaf": faults.Leaf, "Leaf2": faults.Leaf2, "KeyLeaf": faults.KeyLeaf, "int": int, "float": float, "str": str})


_POSINT = {}


def posint():
    """class PosInt(int, Rule): ge = 0 -- the type of the surplus positional parameters in the richer signature."""
    if "t" not in _POSINT:
        from utype import Rule
        _POSINT["t"] = type("PosInt", (int, Rule), {"ge": 0, "__module__": "verif_c08_types"})
    return _POSINT["t"]


def ref_extras(extra, ts):
    """The ideal conversion of the surplus positional values and of the keyword-only parameter (default 3)."""
    if extra is None:
        return (), {}
    if extra[0] == "po":
        # the signature with positional-only parameters next to **kw: str -- a keyword named like a positional-only
        # parameter is one more **kw item (Python's binding), each **kw value is converted to str
        _, po, scale, kws = extra
        conv = bool(ts.get("A", "Leaf"))
        rest = () if po is None else ((_conv(po, "int"),) if conv else (po,))
        kw = {k: (_conv(v, "str") if conv else v) for k, v in kws.items()}
        kw["scale"] = 3 if scale is None else _conv(scale, "int")
        return rest, kw
    rest, scale = extra
    rest = tuple(_conv(x, "PosInt") for x in rest) if ts.get("A", "Leaf") else tuple(rest)
    scale = 3 if scale is None else _conv(scale, "int")
    return rest, {"scale": scale}


def eff_ts(plan):
    """The conversions the decorator is asked to perform: ignore_result switches off yield / send / return conversion,
    ignore_params the parameter conversion."""
    ts = dict(TYPESETS[plan["types"]], A="Leaf")
    if plan.get("ignore") == "result":
        ts.update(Y=None, S=None, R=None, CR=None)
    elif plan.get("ignore") == "params":
        ts["A"] = None
    return ts


def source(plan):
    ts = TYPESETS[plan["types"]]
    late = plan.get("late_types") and plan["types"] == "leaf"
    if late:
        # the whole return annotation is a string over names that only exist after the function has been decorated
        ts = dict(ts, sync=' -> "Generator[YT, ST, RT]"', co=' -> "YT"')
        ts["async"] = ' -> "AsyncGenerator[YT, ST]"'
    eager = "True" if plan["eager"] else "False"
    opt = ", options=utype.Options(collect_errors=True)" if plan.get("collect") else ""
    if plan.get("ignore"):
        opt += ", ignore_%s=True" % plan["ignore"]
    ctx = plan.get("ctx", "func")
    if ctx == "static":
        tail = f"""
class K:
    dec_sync = utype.parse(staticmethod(raw_sync), eager={eager}{opt})
    dec_async = utype.parse(staticmethod(raw_async), eager={eager}{opt})
    dec_co = utype.parse(staticmethod(raw_co), eager={eager}{opt})

dec_sync, dec_async, dec_co = K.dec_sync, K.dec_async, K.dec_co
"""
    elif ctx == "class_deco":
        tail = f"""
def raw_bare(n=utype.Param(7, ge=0)):
    return n

@utype.parse(eager={eager}{opt})
class K:
    bare = staticmethod(raw_bare)      # declared through a Param default only, no annotation at all
    dec_sync = staticmethod(raw_sync)
    dec_async = staticmethod(raw_async)
    dec_co = staticmethod(raw_co)

dec_sync, dec_async, dec_co = K.dec_sync, K.dec_async, K.dec_co
"""
    else:
        tail = f"""
dec_sync = utype.parse(raw_sync, eager={eager}{opt})
dec_async = utype.parse(raw_async, eager={eager}{opt})
dec_co = utype.parse(raw_co, eager={eager}{opt})
"""
    rich = bool(plan.get("rich"))
    sig = "a: Leaf, key: int = 0, *rest: PosInt, scale: int = utype.Param(3)" if rich else "a: Leaf, key: int = 0"
    ent = '["entered", cn(a), cn(list(rest)), cn(scale)]' if rich else '["entered", cn(a)]'
    if plan.get("rich") == "po":
        sig = "a: Leaf, key: int = 0, po: int = 1, /, scale: int = utype.Param(3), **kw: str"
        ent = '["entered", cn(a), cn(po), cn(scale), cn([[k, kw[k]] for k in sorted(kw)])]'
    return f'''
import utype, asyncio
from typing import Generator, Iterator, AsyncGenerator, AsyncIterator
from sim.faults import Leaf, Leaf2, KeyLeaf
from props.c08 import CTX, val, cn, EXC, posint
PosInt = posint()


def raw_sync({sig}){ts["sync"]}:
    c = CTX[key]
    log = c["log"]
    log.append({ent})
    try:
        for act in c["script"]:
            k = act[0]
            if k == "yield":
                x = yield val(act[1])
                log.append(["got", cn(x)])
            elif k == "return":
                return val(act[1])
            elif k == "raise":
                raise EXC[act[1]]("body")
    finally:
        log.append(["finally"])


async def raw_async({sig}){ts["async"]}:
    c = CTX[key]
    log = c["log"]
    log.append({ent})
    try:
        for act in c["script"]:
            k = act[0]
            if k == "yield":
                x = yield val(act[1])
                log.append(["got", cn(x)])
            elif k == "sleep":
                await asyncio.sleep(act[1])
            elif k == "raise":
                raise EXC[act[1]]("body")
    finally:
        log.append(["finally"])


async def raw_co({sig}){ts["co"]}:
    c = CTX[key]
    log = c["log"]
    log.append({ent})
    try:
        for act in c["script"]:
            k = act[0]
            if k == "sleep":
                await asyncio.sleep(act[1])
            elif k == "return":
                return val(act[1])
            elif k == "return_co":
                async def later():
                    return val(act[1])
                return later()
            elif k == "raise":
                raise EXC[act[1]]("body")
    finally:
        log.append(["finally"])

''' + tail + ("\nYT, ST, RT = Leaf, Leaf2, KeyLeaf\n" if late else "")


# ----------------------------------------------------------------------------- generation

def _gen_value(rng, tname, pool):
    if tname in ("Leaf", "Leaf2", "KeyLeaf"):
        pid = pool[0]
        pool[0] += 1
        pool[1].append((tname, pid))
        return {"$r": pid}
    if tname == "int":
        return rng.choice([1, 2, "3", 4, {"$b": "5"}, "zz"] if rng.random() < 0.3 else [1, 2, "3", 4])
    if tname == "float":
        return rng.choice([1, "2.5", 0.5, "zz"] if rng.random() < 0.3 else [1, "2.5", 0.5])
    if tname == "str":
        return rng.choice(["s", 5])
    return rng.choice([1, "u", 0, [1]])


def generate(rng, tier):
    kind = rng.choice(["sync", "sync", "async", "async", "co"])
    types = rng.choice(["leaf", "leaf", "int", "iter", "none", "bare"])
    ts = TYPESETS[types]
    plan = {"prop": ID, "kind": kind, "types": types, "eager": rng.random() < 0.5,
            "collect": rng.random() < 0.2, "ctx": rng.choice(["func", "func", "func", "static", "class_deco"]),
            "late_types": rng.random() < 0.25}
    if plan["ctx"] != "class_deco" and rng.random() < 0.15:
        plan["ignore"] = rng.choice(["result", "params"])
    # a richer signature: surplus positional values of a constrained type, a keyword-only parameter with a Param default
    plan["rich"] = plan.get("ignore") != "params" and plan["ctx"] == "func" and rng.random() < 0.3
    if plan["rich"] and rng.random() < 0.4:
        # positional-only parameters (one with a default, left out or given) next to **kw: str, keywords named like them
        plan["rich"] = "po"
    ncons = rng.choice([1, 1, 2, 3])
    pool = [1, []]
    consumers = []
    for ci in range(ncons):
        c = {"arg": None, "body": [], "script": []}
        c["arg"] = _gen_value(rng, "Leaf", pool) if rng.random() < 0.92 else rng.choice(["zz", 3])
        if plan["rich"] == "po":
            c["po"] = rng.choice([None, None, 2, "3", "zz"])
            c["kw"] = {k: rng.choice([5, "6", 7.5]) for k in rng.sample(["po", "x", "PO"], rng.choice([0, 1, 1, 2]))}
            c["scale"] = rng.choice([None, None, 4, "5", "zz"])
        elif plan["rich"]:
            c["rest"] = [rng.choice([1, "2", 0, -3, "-1", 7]) for _ in range(rng.choice([0, 1, 2]))]
            c["scale"] = rng.choice([None, None, 4, "5", "zz"])
        nb = rng.choice([1, 2, 3, 4])
        body = []
        for _ in range(nb):
            if kind != "co":
                if kind == "async" and rng.random() < 0.35:
                    body.append(["sleep", rng.choice([0, 0.5, 1, 3])])
                # (a yielded None is a value like any other: it has to conform to the declared yield type too)
                body.append(["yield", _gen_value(rng, ts["Y"], pool) if rng.random() < 0.93 else None])
            else:
                body.append(["sleep", rng.choice([0, 0.5, 1, 3])])
        r = rng.random()
        if r < 0.12:
            body.append(["raise", rng.choice(list(EXC))])
        elif kind == "sync" and r < 0.6:
            body.append(["return", _gen_value(rng, ts["R"], pool) if rng.random() < 0.8 else None])
        elif kind == "co":
            if types == "none" and rng.random() < 0.3:
                body.append(["return_co", rng.choice([1, "u"])])    # a second phase handed to the caller un-awaited
            else:
                body.append(["return", _gen_value(rng, ts.get("CR"), pool)])
        c["body"] = body
        script = [["call"]]
        if kind == "co":
            op = ["await"]
            if rng.random() < 0.25:
                op.append(rng.choice([0.2, 1, 2, 10]))
            script = [op]
        else:
            nxt, snd, thr, cls = ("next", "send", "throw", "close") if kind == "sync" else ("anext", "asend", "athrow", "aclose")
            nops = rng.choice([1, 2, 3, 4, 5, 6])
            sent_once = False
            for j in range(nops):
                r = rng.random()
                if j == 0 or r < 0.45:
                    op = [nxt]
                elif r < 0.8:
                    op = [snd, _gen_value(rng, ts["S"], pool)]
                    sent_once = True
                elif r < 0.86:
                    op = [thr, rng.choice(list(EXC))]
                elif r < 0.92:
                    op = [cls]
                elif r < 0.96:
                    op = ["drop"]
                else:
                    op = ["exhaust"]
                if kind == "async" and op[0] in ("anext", "asend") and rng.random() < 0.15:
                    op.append({"timeout": rng.choice([0.2, 1, 2])})
                script.append(op)
                if kind == "async" and rng.random() < 0.2:
                    script.append(["pause", rng.choice([0, 0.5, 2])])
                if op[0] in ("drop",):
                    break
        c["script"] = script
        consumers.append(c)
    plan["consumers"] = consumers
    total = sum(len(c["script"]) for c in consumers)
    if kind == "sync":
        order = [ci for ci, c in enumerate(consumers) for _ in c["script"]]
        rng.shuffle(order)
        plan["interleave"] = order
    else:
        plan["loop"] = {"seed": rng.randrange(1 << 30), "mode": rng.choice(["fifo", "random"])}
        if rng.random() < 0.25:
            plan["cancel"] = {"consumer": rng.randrange(ncons), "at_iteration": rng.randint(2, 6 + 4 * total)}
    fl = {}
    for tname, pid in pool[1]:
        if rng.random() < 0.12:
            fl[str(faults.fault_id(PYTYPES[tname], pid))] = rng.choice(["ValueError", "TypeError", "OSError", "KeyError"])
    plan["faults"] = {"leaf": fl}
    return plan


# ----------------------------------------------------------------------------- reference proxies

class RefParseError(Exception):
    pass


def _conv(v, tname):
    if tname is None:
        return v
    import utype
    try:
        return utype.type_transform(v, PYTYPES[tname])
    except Exception:  # noqa
        raise RefParseError(tname)


class RefSync:
    """Ideal proxy around the undecorated sync generator function."""

    def __init__(self, raw, ts, eager, arg, key, extra=None):
        self.raw, self.ts, self.arg, self.key, self.extra = raw, ts, arg, key, extra
        self.gen = None
        self.state = "new"
        if eager:
            self._start()

    def _start(self):
        try:
            a = _conv(self.arg, self.ts.get("A", "Leaf"))
            rest, kw = ref_extras(self.extra, self.ts)
        except RefParseError:
            self.state = "dead"
            raise
        self.gen = self.raw(a, self.key, *rest, **kw)
        self.state = "started"

    def send(self, v):
        if self.state == "dead":
            raise StopIteration()
        if self.state == "new":
            self._start()
        if v is not None:
            try:
                v = _conv(v, self.ts["S"])
            except RefParseError:
                self._kill()
                raise
        try:
            item = self.gen.send(v)
        except StopIteration as e:
            self.state = "dead"
            r = e.value
            if r is not None and self.ts["R"]:
                r = _conv(r, self.ts["R"])
            raise StopIteration(r)
        except BaseException:
            self.state = "dead"
            raise
        try:
            return _conv(item, self.ts["Y"])
        except RefParseError:
            self._kill()
            raise

    def _kill(self):
        self.state = "dead"
        if self.gen is not None:
            self.gen.close()

    def throw(self, e):
        if self.state != "started":
            self.state = "dead"
            raise e
        try:
            item = self.gen.throw(e)
        except BaseException:
            self.state = "dead"
            raise
        return _conv(item, self.ts["Y"])

    def close(self):
        self._kill()


class RefAsync:
    def __init__(self, raw, ts, eager, arg, key, extra=None):
        self.raw, self.ts, self.arg, self.key, self.extra = raw, ts, arg, key, extra
        self.gen = None
        self.state = "new"
        if eager:
            self._start()

    def _start(self):
        try:
            a = _conv(self.arg, self.ts.get("A", "Leaf"))
            rest, kw = ref_extras(self.extra, self.ts)
        except RefParseError:
            self.state = "dead"
            raise
        self.gen = self.raw(a, self.key, *rest, **kw)
        self.state = "started"

    async def asend(self, v):
        if self.state == "dead":
            raise StopAsyncIteration()
        if self.state == "new":
            self._start()
        if v is not None:
            try:
                v = _conv(v, self.ts["S"])
            except RefParseError:
                await self._kill()
                raise
        try:
            item = await self.gen.asend(v)
        except StopAsyncIteration:
            self.state = "dead"
            raise
        except BaseException:
            self.state = "dead"
            raise
        try:
            return _conv(item, self.ts["Y"])
        except RefParseError:
            await self._kill()
            raise

    async def _kill(self):
        self.state = "dead"
        if self.gen is not None:
            await self.gen.aclose()

    async def athrow(self, e):
        if self.state != "started":
            self.state = "dead"
            raise e
        try:
            item = await self.gen.athrow(e)
        except BaseException:
            self.state = "dead"
            raise
        return _conv(item, self.ts["Y"])

    async def aclose(self):
        await self._kill()


# ----------------------------------------------------------------------------- drivers

def _mark(log):
    """Position in the body log, not counting 'finally' entries: when the body is finalised is a matter of
    reference counting / garbage collection (frames held by exception tracebacks), which the statement does not fix."""
    return sum(1 for e in log if e[0] != "finally")


def _nf(log):
    return [e for e in log if e[0] != "finally"]


def _exc_name(e):
    from utype.utils.exceptions import ParseError
    if isinstance(e, (ParseError, RefParseError)):
        return "ParseError"
    if isinstance(e, asyncio.TimeoutError):
        return "TimeoutError"
    return type(e).__name__


def drive_sync(make, plan, keybase):
    """make(ci) -> generator-like object with send/throw/close (may raise at creation when eager)."""
    cons = plan["consumers"]
    hist = [[] for _ in cons]
    objs = [None] * len(cons)
    pos = [0] * len(cons)
    for ci in plan["interleave"]:
        if pos[ci] >= len(cons[ci]["script"]):
            continue
        op = cons[ci]["script"][pos[ci]]
        pos[ci] += 1
        log = CTX[keybase + ci]["log"]
        k = op[0]
        out = None
        try:
            if k == "call":
                objs[ci] = make(ci)
                out = ["created"]
            elif objs[ci] is None:
                out = ["skipped"]
            elif k == "next":
                out = ["yield", cn(objs[ci].send(None))]
            elif k == "send":
                out = ["yield", cn(objs[ci].send(val(op[1])))]
            elif k == "throw":
                out = ["yield", cn(objs[ci].throw(EXC[op[1]]("thrown")))]
            elif k == "close":
                objs[ci].close()
                out = ["closed"]
            elif k == "drop":
                objs[ci] = None
                out = ["dropped"]
            elif k == "exhaust":
                got = []
                for _ in range(12):
                    got.append(cn(objs[ci].send(None)))
                out = ["yields", got]
        except StopIteration as e:
            out = ["stop", cn(e.value)]
        except Exception as e:  # noqa
            out = ["exc", _exc_name(e)]
            e = None
        hist[ci].append([k, out, _mark(log)])
    objs[:] = [None] * len(objs)
    return hist


async def _consumer_task(make, script, log, hist):
    obj = None
    for op in script:
        k = op[0]
        out = None
        try:
            if k == "call":
                obj = make()
                out = ["created"]
            elif k == "pause":
                await asyncio.sleep(op[1])
                continue
            elif k == "await":
                co = make()
                if len(op) > 1:
                    out = ["ret", cn(await asyncio.wait_for(co, op[1]))]
                else:
                    out = ["ret", cn(await co)]
            elif obj is None:
                out = ["skipped"]
            elif k in ("anext", "asend"):
                v = val(op[1]) if k == "asend" else None
                opts = op[-1] if isinstance(op[-1], dict) and "timeout" in op[-1] else None
                aw = obj.asend(v)
                if opts:
                    out = ["yield", cn(await asyncio.wait_for(aw, opts["timeout"]))]
                else:
                    out = ["yield", cn(await aw)]
            elif k == "athrow":
                v = await obj.athrow(EXC[op[1]]("thrown"))
                out = ["yield", cn(v)] if v is not None else ["none"]
            elif k == "aclose":
                await obj.aclose()
                out = ["closed"]
            elif k == "drop":
                obj = None
                out = ["dropped"]
            elif k == "exhaust":
                got = []
                for _ in range(12):
                    got.append(cn(await obj.asend(None)))
                out = ["yields", got]
        except StopAsyncIteration:
            out = ["stop", None]
        except asyncio.CancelledError:
            hist.append([k, ["exc", "CancelledError"], _mark(log)])
            raise
        except Exception as e:  # noqa
            out = ["exc", _exc_name(e)]
            e = None
        hist.append([k, out, _mark(log)])
    obj = None


def drive_async(make, plan, keybase):
    cons = plan["consumers"]
    hist = [[] for _ in cons]
    info = {}

    async def main(loop):
        tasks = []
        for ci, c in enumerate(cons):
            t = loop.create_task(_consumer_task(lambda ci=ci: make(ci), c["script"], CTX[keybase + ci]["log"], hist[ci]),
                                 name=f"consumer-{ci}")
            tasks.append(t)
        cp = plan.get("cancel")
        if cp:
            loop.at_iteration.setdefault(loop.iterations + cp["at_iteration"], []).append(tasks[cp["consumer"]].cancel)
        r = await asyncio.gather(*tasks, return_exceptions=True)
        return [type(x).__name__ if isinstance(x, BaseException) else None for x in r]

    out, loop = aloop.run(main, seed=plan["loop"]["seed"], mode=plan["loop"]["mode"], max_iterations=5000)
    info["stall"] = type(out).__name__ if isinstance(out, (aloop.SimStall, aloop.SimBudget)) else None
    info["iterations"] = loop.iterations
    info["vtime"] = loop.time()
    return hist, info


# ----------------------------------------------------------------------------- execution

FAULT_OPS = {"throw", "close", "drop", "athrow", "aclose"}


def conforms(plan, c):
    y = eff_ts(plan)["Y"]
    if y is None:
        return True
    if y == "Leaf":
        return isinstance(c, list) and c and c[0] == "Leaf"
    if y == "int":
        return isinstance(c, int) and not isinstance(c, bool)
    return True


def conforms_ret(plan, c):
    r = eff_ts(plan).get("CR")
    if r is None:
        return True
    if r == "Leaf":
        return isinstance(c, list) and c and c[0] == "Leaf"
    return isinstance(c, int)


def execute(plan):
    res = RunResult()
    kernel.reset_world()
    faults.register_leaves()
    CTX.clear()
    cons = plan["consumers"]
    for ci, c in enumerate(cons):
        CTX[ci] = {"script": c["body"], "log": []}
        CTX[100 + ci] = {"script": c["body"], "log": []}
    try:
        mod = kernel.make_module("verif_c08_mod", source(plan))
    except SyntaxError:
        raise
    except Exception as e:  # noqa
        # the undecorated twin is declared by the same source: what fails is the decoration of a function Python accepts
        res.violate(f"C08|{plan['kind']}|declare|decoration_refused:{type(e).__name__}",
                    f"decorating the function failed with {type(e).__name__}: {kernel.clean_text(e, 160)}; types {plan.get('types')}")
        return res
    faults.set_plan(plan["faults"])
    ts = eff_ts(plan)
    kind = plan["kind"]
    info = {}
    if plan.get("ctx") == "class_deco" and plan.get("ignore") != "params":
        # every method of a decorated class is a decorated function: an omitted parameter is set to its default
        try:
            r = cn(mod.K.bare())
        except Exception as e:  # noqa
            r = ["exc", type(e).__name__]
        if r != 7:
            res.violate("C08|class_deco|binding|default_not_applied",
                        f"K.bare() (def bare(n=Param(7, ge=0)) in a class decorated with @utype.parse) returned {kernel.clean_text(r, 80)}, the declared default is 7")
    def extra(ci):
        if plan.get("rich") == "po":
            return ("po", cons[ci].get("po"), cons[ci].get("scale"), dict(cons[ci].get("kw") or {}))
        return (list(cons[ci].get("rest") or []), cons[ci].get("scale")) if plan.get("rich") else None

    def dec_call(fn, ci):
        ex = extra(ci)
        if ex is None:
            return fn(val(cons[ci]["arg"]), ci)
        if ex[0] == "po":
            kws = dict(ex[3])
            if ex[2] is not None:
                kws["scale"] = ex[2]
            return fn(val(cons[ci]["arg"]), ci, *([] if ex[1] is None else [ex[1]]), **kws)
        return fn(val(cons[ci]["arg"]), ci, *ex[0], **({} if ex[1] is None else {"scale": ex[1]}))
    if kind == "sync":
        got = drive_sync(lambda ci: dec_call(mod.dec_sync, ci), plan, 0)
        ref = drive_sync(lambda ci: RefSync(mod.raw_sync, ts, plan["eager"], val(cons[ci]["arg"]), 100 + ci, extra(ci)), plan, 100)
    elif kind == "async":
        got, info = drive_async(lambda ci: dec_call(mod.dec_async, ci), plan, 0)
        ref, rinfo = drive_async(lambda ci: RefAsync(mod.raw_async, ts, plan["eager"], val(cons[ci]["arg"]), 100 + ci, extra(ci)), plan, 100)
        res.stats["vtime_ms"] += int(info["vtime"] * 1000)
        res.stats["vsteps"] += info["iterations"]
    else:
        def ref_co(ci):
            # ideal coroutine wrapper: parameters first (eager: at call), then the body, then the declared return conversion
            arg = val(cons[ci]["arg"])
            if plan["eager"]:
                a = _conv(arg, ts["A"])
                rest, kw = ref_extras(extra(ci), ts)

                async def run():
                    return _conv(await mod.raw_co(a, 100 + ci, *rest, **kw), ts.get("CR"))
                return run()

            async def run_lazy():
                a2 = _conv(arg, ts["A"])
                rest2, kw2 = ref_extras(extra(ci), ts)
                return _conv(await mod.raw_co(a2, 100 + ci, *rest2, **kw2), ts.get("CR"))
            return run_lazy()
        got, info = drive_async(lambda ci: dec_call(mod.dec_co, ci), plan, 0)
        ref, rinfo = drive_async(ref_co, plan, 100)
        res.stats["vtime_ms"] += int(info["vtime"] * 1000)
        res.stats["vsteps"] += info["iterations"]
    fired = faults.STATE.fired
    res.stats["fault:leaf_fail"] += fired.get("leaf_fail", 0)
    if plan.get("cancel"):
        res.stats["fault:cancel"] += 1
    nontriv = len(cons) >= 2 or bool(fired.get("leaf_fail"))
    if len(cons) >= 2:
        res.stats["probe:interleaved_consumers"] += 1
    tag = f"{kind}|{'eager' if plan['eager'] else 'lazy'}"
    if info.get("stall"):
        res.violate(f"C08|{tag}|stall|{info['stall']}", f"the simulated loop did not reach quiescence: {info['stall']} after {info['iterations']} iterations")
    for ci, c in enumerate(cons):
        glog, rlog = CTX[ci]["log"], CTX[100 + ci]["log"]
        res.ev("consumer", ci, got[ci])
        res.ev("body", ci, glog)
        relaxed = False
        strict_loglen = (0, 0)
        failure_at = None    # body-log length (decorated run) when a conversion failure was reported
        for idx, (r, g) in enumerate(itertools.zip_longest(ref[ci], got[ci])):
            if r is None or g is None:
                cancelled_here = bool(plan.get("cancel")) and plan["cancel"]["consumer"] == ci
                # a cancelled consumer stops wherever the cancellation finds it: the two runs need not stop at the same operation
                if not relaxed and not cancelled_here:
                    res.violate(f"C08|{tag}|{(r or g)[0]}|{'missing' if g is None else 'extra'}",
                                f"consumer {ci} op #{idx}: reference {r} vs decorated {g}")
                break
            k = r[0]
            gout, rout = g[1], r[1]
            # safety invariants hold everywhere
            if gout[0] == "yield" and not conforms(plan, gout[1]):
                res.violate(f"C08|{tag}|{k}|nonconforming_yield", f"consumer {ci} op #{idx} {c['script'][idx] if idx < len(c['script']) else k} received {gout[1]}")
            if gout[0] == "yields" and not all(conforms(plan, x) for x in gout[1]):
                res.violate(f"C08|{tag}|{k}|nonconforming_yield", f"consumer {ci} op #{idx} received {gout[1]}")
            if gout[0] == "ret" and not conforms_ret(plan, gout[1]):
                res.violate(f"C08|{tag}|{k}|nonconforming_return", f"consumer {ci} op #{idx} was returned {gout[1]}")
            if k in ("send", "asend") and c["script"] and gout[0] != "skipped":
                res.stats["probe:send_non_none"] += 1
                nontriv = True
            if any(o[0] == "exc" and o[1] in ("CancelledError", "TimeoutError") for o in (gout, rout)):
                if not relaxed:
                    res.stats["probe:" + ("cancel_landed_mid_op" if "CancelledError" in (gout[-1], rout[-1]) else "timeout_fired")] += 1
                relaxed = True
                nontriv = True
                continue
            if relaxed:
                continue
            if k in FAULT_OPS:
                relaxed = True
                nontriv = True
                res.stats["probe:" + ("abandoned" if k == "drop" else "throw_or_close")] += 1
                res.stats["fault:" + k] += 1
                if k in ("throw", "athrow") and gout != rout and not (gout[0] == "exc" and rout[0] == "exc"):
                    pass   # the statement is silent about throw(): not judged
                continue
            if gout != rout:
                what = "value" if gout[0] == rout[0] else f"{rout[0]}_vs_{gout[0]}"
                if gout[0] == "exc" or rout[0] == "exc":
                    what = f"ref:{rout[1] if rout[0] == 'exc' else rout[0]}_dec:{gout[1] if gout[0] == 'exc' else gout[0]}"
                res.violate(f"C08|{tag}|{k}|{what}",
                            f"consumer {ci} op #{idx} {c['script'][idx] if idx < len(c['script']) else k}: undecorated function with conversions gives {kernel.jdump(rout)[:160]}, "
                            f"decorated gives {kernel.jdump(gout)[:160]}; body script {c['body']}, consumer script {c['script']}")
                break
            strict_loglen = (r[2], g[2])
            if gout == ["exc", "ParseError"]:
                relaxed = True
                failure_at = g[2]
                nontriv = True
                arg_failed = False
                try:
                    _conv(val(c["arg"]), ts["A"])
                except RefParseError:
                    arg_failed = True
                if arg_failed:
                    res.stats["probe:param_failure"] += 1
                elif k in ("send", "asend"):
                    res.stats["probe:send_conversion_failure"] += 1
                elif k == "await" or rout[0] == "stop":
                    res.stats["probe:return_conversion_failure"] += 1
                else:
                    res.stats["probe:yield_conversion_failure"] += 1
        # what the body saw, up to the last strictly compared operation
        rlog, glog = _nf(rlog), _nf(glog)
        if rlog[:strict_loglen[0]] != glog[:strict_loglen[1]]:
            res.violate(f"C08|{tag}|body|received_differs",
                        f"consumer {ci}: the undecorated body saw {kernel.jdump(rlog[:strict_loglen[0]])[:200]}, the decorated body saw {kernel.jdump(glog[:strict_loglen[1]])[:200]}; "
                        f"body script {c['body']}, consumer script {c['script']}")
        if failure_at is not None and any(e[0] in ("got", "entered") for e in glog[failure_at:]):
            res.violate(f"C08|{tag}|body|resumed_after_parse_failure",
                        f"consumer {ci}: the body ran on after a conversion failure: {glog[failure_at:]}")
    if nontriv:
        res.nontrivial = kernel.digest_of([plan["kind"], plan["eager"], plan["types"], plan.get("collect"), plan.get("ctx"), plan.get("late_types"), plan.get("ignore"), plan.get("rich"), [[c["body"], c.get("rest"), c.get("scale"), c.get("po"), c.get("kw")] for c in cons] if plan.get("rich") else 0, [[c["body"], c["script"]] for c in cons],
                                           plan.get("interleave"), plan.get("loop", {}).get("mode"), plan.get("cancel")])
    CTX.clear()
    return res


# ----------------------------------------------------------------------------- shrinking

def shrink(plan):
    cons = plan["consumers"]
    if len(cons) > 1:
        for ci in range(len(cons)):
            p = copy.deepcopy(plan)
            p["consumers"].pop(ci)
            if "interleave" in p:
                p["interleave"] = [x - (x > ci) for x in p["interleave"] if x != ci]
            if p.get("cancel"):
                if p["cancel"]["consumer"] == ci:
                    p.pop("cancel")
                elif p["cancel"]["consumer"] > ci:
                    p["cancel"]["consumer"] -= 1
            yield p
    if plan.get("cancel"):
        p = copy.deepcopy(plan)
        p.pop("cancel")
        yield p
    if plan.get("collect"):
        p = copy.deepcopy(plan)
        p["collect"] = False
        yield p
    if plan.get("ignore"):
        p = copy.deepcopy(plan)
        p.pop("ignore")
        yield p
    if plan.get("late_types"):
        p = copy.deepcopy(plan)
        p["late_types"] = False
        yield p
    if plan.get("ctx", "func") != "func":
        p = copy.deepcopy(plan)
        p["ctx"] = "func"
        yield p
    for k in list(plan["faults"]["leaf"]):
        p = copy.deepcopy(plan)
        p["faults"]["leaf"].pop(k)
        yield p
    for ci, c in enumerate(cons):
        for i in range(len(c["script"]) - 1, 0, -1):
            p = copy.deepcopy(plan)
            p["consumers"][ci]["script"].pop(i)
            if "interleave" in p:
                # drop the last occurrence of ci
                idx = len(p["interleave"]) - 1 - p["interleave"][::-1].index(ci)
                p["interleave"].pop(idx)
            yield p
        for i in range(len(c["body"]) - 1, -1, -1):
            p = copy.deepcopy(plan)
            p["consumers"][ci]["body"].pop(i)
            yield p
        for i, op in enumerate(c["script"]):
            if isinstance(op[-1], dict) and "timeout" in op[-1]:
                p = copy.deepcopy(plan)
                p["consumers"][ci]["script"][i].pop()
                yield p
    if "interleave" in plan:
        srt = sorted(plan["interleave"])
        if srt != plan["interleave"]:
            p = copy.deepcopy(plan)
            p["interleave"] = srt
            yield p
    if plan.get("loop", {}).get("mode") == "random":
        p = copy.deepcopy(plan)
        p["loop"]["mode"] = "fifo"
        yield p
