"""C17 -- forward references and declaration order do not change behaviour.

Event-order scheduler over one program (2-3 mutually referencing data classes and a decorated function):
the seed decides how every reference is spelled, the order in which the classes are defined (sources are
exec'd one at a time into a live module), when each declaration is used for the first time, whether a use
comes before a name it needs exists, and whether another module with the same class names is defined and used
in between. Oracle: every use returns what the same program written with direct references returns (acyclic
programs: a real twin world with direct references in dependency order; cyclic programs: a small executable
model of the declared structure, itself cross-checked against the direct twin on every acyclic run).
"""
import copy
import json

from sim import kernel, faults
from sim.runner import RunResult

ID = "C17"
RULE = ("plan = (program: 2-3 classes with an int field and 1-2 reference fields each over targets forming a DAG or a cycle "
        "incl. self reference, container Optional/List/Dict/Union[int,.]/required, spelling direct | 'B' | Optional['B'] etc. | "
        "whole annotation quoted | module with postponed evaluation | Self; same target in two fields; a constrained alias "
        "referenced by string; a function with string-annotated parameter and return; or a function-local self-referencing "
        "class), event order = permutation of define(X) / use(X, input) / premature use / other module with the same names "
        "defined+used / JSON-schema generation; non-trivial = >=1 reference still pending when its class is created and "
        "resolved by a later event; distinct by (program digest, spelling vector, event order)")
ASSUMPTIONS = [
    "inputs are nested dicts whose leaves are ints, numeric strings or one invalid leaf 'zz', so the reference outcome does not depend on modelling conversions beyond int()",
    "acyclic programs are judged against a real twin world written with direct references in dependency order; cyclic programs against the structural model; when the model and the direct twin disagree on an acyclic program the run is counted under probe model_vs_direct_disagree and the twin is believed",
    "a use issued before a needed name exists (premature) may have any outcome; every later use must be right",
    "failures are compared as 'rejected with ParseError' (no message comparison)",
]
COMPONENTS = {
    "real": ["register_forward_ref / resolve_forward_type", "LogicalType/Rule register_forward_refs / resolve_forward_refs", "BaseParser.resolve_forward_refs (lazy)",
             "ClassParser.globals", "FunctionParser (string annotated params / return)", "TypeTransformer ForwardRef handling", "JsonSchemaGenerator",
             "typing generic-alias cache and ForwardRef evaluation (CPython)"],
    "stub": ["event order (the seed decides)", "structural reference model (cyclic programs)"],
}
TIERS = {
    "quick": {"runs": 6000, "chunk": 50, "selftest": 48, "minimise_s": 60},
    "thorough": {"budget_s": 600, "chunk": 100, "selftest": 256, "minimise_s": 120},
}
PROBES = ["pending_then_resolved", "premature_use", "other_module_used_first", "cyclic_program", "same_target_twice", "future_annotations",
          "whole_quoted", "local_class", "schema_generated", "constrained_ref", "self_spelling", "acyclic_direct_twin",
          "local_name_collides_with_module", "same_target_three_times", "function_partially_resolvable", "generator_types_by_reference",
          "subclass_used", "property_output_by_reference", "local_sibling_reference", "class_nested_in_class_body", "first_use_is_an_assignment", "subclass_in_other_module", "self_in_inherited_lazy_annotation"]

CONTAINERS = ["opt", "list", "dict", "union", "req"]


# ----------------------------------------------------------------------------- program -> source

def ann(container, target_expr, quoted_inner):
    """target_expr is either a bare name (direct) or a quoted name."""
    t = target_expr
    if container == "opt":
        return f"Optional[{t}]"
    if container == "list":
        return f"List[{t}]"
    if container == "dict":
        return f"Dict[str, {t}]"
    if container == "union":
        return f"Union[int, {t}]"
    if container == "list2":
        return f"List[List[{t}]]"       # the reference sits two generic levels deep
    if container == "dictlist":
        return f"Dict[str, List[{t}]]"
    if container == "array":
        return f"Array[{t}]"                # the library's own generic: built before it reaches the declaration
    if container == "obj":
        return f"Object[str, {t}]"
    if container == "lorlist":
        return f"PosInt | List[{t}]"        # the library's own operator over a typing generic that holds the reference
    return t


def default_for(container):
    return {"opt": " = None", "list": " = Field(default_factory=list)", "dict": " = Field(default_factory=dict)",
            "union": " = 0", "req": "", "list2": " = Field(default_factory=list)", "dictlist": " = Field(default_factory=dict)",
            # (under a constraint of the field, the type built before the declaration becomes the origin of the field's own Rule)
            "array": " = Field(default_factory=list, max_length=9)", "obj": " = Field(default_factory=dict, max_length=9)", "lorlist": " = 1"}[container]


def class_source(prog, ci, S, direct=False):
    c = prog["classes"][ci]
    name = f"C{ci}{S}"
    L = [f"class {name}({'Schema' if c.get('base', 'schema') == 'schema' else 'DataClass'}):"]
    if c.get("addn"):
        # what the unknown keys have to conform to is given by reference too
        tq = f"C{c['addn']['to']}{S}"
        L.append(f"    __options__ = Options(addition={ann(c['addn']['cont'], tq if direct else repr(tq), not direct)})")
    # required fields first is not needed for data classes
    L.append("    v: int = 0")
    if prog.get("kinds"):
        L.append(f"    kind: Literal['c{ci}'] = 'c{ci}'")
    if c.get("finals"):
        # annotations that describe the field rather than its type (they reach the library as strings under postponed evaluation)
        L.append("    fz: Final[int] = 5")
        L.append("    cv: ClassVar[int] = 3")
    if c.get("disc"):
        # a union over two other classes, told apart by their constant field
        a_, b_ = f"C{c['disc']['a']}{S}", f"C{c['disc']['b']}{S}"
        sp = "direct" if direct else c["disc"]["spell"]
        t_ = f"Union[{a_}, {b_}]" if sp in ("direct", "future") else repr(f"Union[{a_}, {b_}]") if sp == "whole" else f"Union[{a_!r}, {b_!r}]"
        L.append(f"    dsc: {t_} = Field(discriminator='kind', default=None)")
    if c.get("pair"):
        # one generic with two reference-bearing arguments
        a_, b_ = f"C{c['pair']['a']}{S}", f"C{c['pair']['b']}{S}"
        sp = "direct" if direct else c["pair"]["spell"]
        t_ = f"Tuple[{a_}, List[{b_}]]" if sp in ("direct", "future") else repr(f"Tuple[{a_}, List[{b_}]]") if sp == "whole" else f"Tuple[{a_!r}, List[{b_!r}]]"
        if c["pair"].get("self_b") and not direct and sp in ("str", "whole"):
            # the second argument is the class itself, spelled Self, next to a reference that may still be pending
            # (as one whole string the annotation is evaluated at the first parse only)
            t_ = f"Tuple[{a_!r}, List[Self]]" if sp == "str" else repr(f"Tuple[{a_}, List[Self]]")
        if c["pair"].get("annotated"):
            # the Field travels inside the annotation: under postponed evaluation / as one string it can only be read
            # off the annotation when that can be evaluated at the declaration, whether or not every name is defined
            if t_[0] in "'\"":
                t_ = repr("Annotated[" + t_[1:-1] + ", Field(alias_from=['prx'])]")
            else:
                t_ = f"Annotated[{t_}, Field(alias_from=['prx'])]"
            L.append(f"    pr: {t_} = None")
        else:
            L.append(f"    pr: {t_} = Field(default=None)")
    for fi, r in enumerate(c["refs"]):
        tgt = f"C{r['to']}{S}"
        sp = "direct" if direct else r["spell"]
        cont = r["cont"]
        if sp == "direct" or sp == "future":
            a = ann(cont, tgt, False)
        elif sp == "str":
            a = ann(cont, repr(tgt), True) if cont != "req" else repr(tgt)
        elif sp == "dotted":
            # through the module object (as in `import models` ... 'models.Customer' during a circular import)
            a = ann(cont, repr("MOD." + tgt), True) if cont != "req" else repr("MOD." + tgt)
        elif sp == "whole":
            a = repr(ann(cont, tgt, False))
        elif sp == "self":
            a = ann(cont, "Self", False)
        else:
            raise ValueError(sp)
        L.append(f"    r{fi}: {a}{default_for(cont)}")
    if c.get("lim"):
        a = f"PosI{S}" if direct else repr(f"PosI{S}")
        if c.get("lim_opt"):
            # the constrained name sits inside Optional[...]: the field's own bounds meet a reference, not a type
            a = f"Optional[{a}]"
        L.append(f"    lim: {a} = Field(lt=10, default=1)")
        if c.get("lim2"):
            # the same name once more, with other constraints
            L.append(f"    lim2: {a} = Field(lt=1000, default=2)")
    if c.get("pprop") is not None:
        # a property whose setter takes a plain int and whose getter returns (a mapping for) another class
        q = f"C{c['pprop']}{S}" if direct else repr(f"C{c['pprop']}{S}")
        L += ["    _p = 0", "    @property", f"    def prop(self) -> {q}:", "        return {'v': self._p}",
              "    @prop.setter", "    def prop(self, val: int = Field(required=False)):", "        self._p = val"]
    return "\n".join(L) + "\n"


HEADER = ("from utype import Schema, DataClass, Field, Options, Rule\nimport utype\n"
          "from typing import List, Dict, Optional, Union, Iterator, Generator, Literal, Tuple, Final, ClassVar, Annotated\nfrom utype.utils.compat import Self\nfrom utype.types import Array, Object, PositiveInt as PosInt\nfrom props.c17_deco import logged as _logged\nimport sys as _sys\nMOD = _sys.modules[__name__]\n")


def alias_source(S):
    return f"class PosI{S}(int, Rule):\n    gt = 0\n"


def func_source(prog, S, direct=False):
    a, b = prog["func"]["arg"], prog["func"]["ret"]
    # (under a functools.wraps decorator of another module: the names are still those of this module)
    deco = "@utype.parse\n@_logged\n" if prog["func"].get("wrapped") else "@utype.parse\n"
    if direct:
        return (f"{deco}def fn{S}(a: C{a}{S}, n: int = 0) -> C{b}{S}:\n    return {{'v': a.v + n}}\n")
    return (f"{deco}def fn{S}(a: 'C{a}{S}', n: int = 0) -> 'C{b}{S}':\n    return {{'v': a.v + n}}\n")


def func2_source(prog, S, direct=False):
    a, b = prog["func2"]["p0"], prog["func2"]["p1"]
    qa = f"C{a}{S}" if direct else repr(f"C{a}{S}")
    qb = f"C{b}{S}" if direct else repr(f"C{b}{S}")
    return (f"@utype.parse\ndef fn2{S}(p0: Optional[{qa}] = None, p1: {qb} = None, p2: List[{qb}] = ()):\n"
            f"    return [p0, p1, list(p2)]\n")


def gen_source(prog, S, direct=False):
    c = prog["genfn"]["to"]
    q = f"C{c}{S}" if direct else repr(f"C{c}{S}")
    if prog["genfn"]["form"] == "iter":
        return (f"@utype.parse\ndef gen{S}(n: int = 0) -> Iterator[{q}]:\n    for i in range(n):\n        yield {{'v': str(i)}}\n")
    return (f"@utype.parse\ndef gen{S}(n: int = 0) -> Generator[{q}, None, {q}]:\n    for i in range(n):\n        yield {{'v': str(i)}}\n"
            f"    return {{'v': 100 + n}}\n")


def _sub_other(prog):
    # (an inherited Optional[Self] means the subclass itself once it is re-declared there: not the same declaration)
    return bool(prog["sub"].get("other_module")) and prog["classes"][prog["sub"]["of"]]["refs"][0]["spell"] != "self"


def sub_source(prog, S):
    c = prog["sub"]["of"]
    src = f"class D{c}{S}(C{c}{S}):\n    extra: int = 0\n"
    if _sub_other(prog):
        # the subclass lives in another module and only gives an inherited reference field its default again
        src += "    r0 = None\n"
    if prog["sub"].get("deep"):
        # a third level whose parent declares nothing that is pending itself
        src += f"class E{c}{S}(D{c}{S}):\n    more: int = 0\n"
    return src


def fnr_source(prog, S, direct=False):
    c = prog["fnr"]["to"]
    q = f"C{c}{S}" if direct else repr(f"C{c}{S}")
    return f"@utype.parse(ignore_params=True)\ndef fnr{S}(k=7) -> {q}:\n    return {{'v': k}}\n"


def nested_source(S, cont2, outer=False):
    """A self-referencing class declared in the body of another class (not function-local: qualname Outer.Loc)."""
    if outer:
        # ... and the enclosing class, a data class itself, names the class of its body by string
        return (f"class Outer{S}(Schema):\n    class Loc(Schema):\n        v: int = 0\n        r0: Optional['Loc'] = None\n"
                f"        r1: {ann(cont2, repr('Loc'), True)}{default_for(cont2)}\n"
                f"    v: int = 0\n    r0: Optional['Loc'] = None\n    r1: {ann(cont2, repr('Loc'), True)}{default_for(cont2)}\n\n"
                f"def make{S}():\n    return Outer{S}\n")
    return (f"class Outer{S}:\n    class Loc(Schema):\n        v: int = 0\n        r0: Optional['Loc'] = None\n"
            f"        r1: {ann(cont2, repr('Loc'), True)}{default_for(cont2)}\n\ndef make{S}():\n    return Outer{S}.Loc\n")


def local_source(S, cont2, collide=False, sibling=None, mutual=False):
    # collide: the module namespace already binds an unrelated class under the local class's name
    # sibling: a second class local to the same function, named by the first one ('before' / 'after' it in the body)
    pre = "class Loc(Schema):\n    v: str = 'module-level'\n    zzz: int = 0\n\n" if collide else ""
    leaf = "    class Leaf(Schema):\n        v: int = 0\n" + ("        r0: Optional['Loc'] = None\n" if mutual else "")
    return (pre + f"def make{S}():\n" + (leaf if sibling == "before" else "") +
            f"    class Loc(Schema):\n        v: int = 0\n        r0: Optional['Loc'] = None\n"
            f"        r1: {ann(cont2, repr('Loc'), True)}{default_for(cont2)}\n" +
            ("        r2: Optional['Leaf'] = None\n" if sibling else "") + (leaf if sibling == "after" else "") + "    return Loc\n")


def other_module_source(prog, S):
    """Same class names, different content (v is a str there)."""
    L = [HEADER]
    n = len(prog["classes"])
    for ci in range(n):
        nxt = (ci + 1) % n
        L.append(f"class C{ci}{S}(Schema):\n    v: str = 'other'\n    r0: Optional['C{nxt}{S}'] = None\n"
                 f"    r1: List['C{nxt}{S}'] = Field(default_factory=list)\n    r2: Dict[str, 'C{nxt}{S}'] = Field(default_factory=dict)\n")
    return "\n".join(L)


# ----------------------------------------------------------------------------- model

class Reject(Exception):
    pass


def _to_int(x):
    if isinstance(x, bool):
        return int(x)
    if isinstance(x, int):
        return x
    if isinstance(x, str):
        try:
            return int(x)
        except ValueError:
            raise Reject()
    raise Reject()


def model_class(prog, ci, data, depth=0):
    """Canonical dump (kernel.canon format, unordered) of what parsing `data` as class ci must give."""
    if not isinstance(data, dict) or depth > 8:
        raise Reject()
    c = prog["classes"][ci]
    out = []
    out.append(["v", _to_int(data.get("v", 0))])
    if c.get("finals"):
        out.append(["fz", 5])
    if prog.get("kinds"):
        if data.get("kind", f"c{ci}") != f"c{ci}":
            raise Reject()
        out.append(["kind", f"c{ci}"])
    if c.get("disc"):
        x = data.get("dsc")
        if x is None:
            out.append(["dsc", None])
        else:
            which = {f"c{c['disc']['a']}": c["disc"]["a"], f"c{c['disc']['b']}": c["disc"]["b"]}
            if not isinstance(x, dict) or x.get("kind") not in which:
                raise Reject()
            out.append(["dsc", model_class(prog, which[x["kind"]], x, depth + 1)])
    if c.get("pair"):
        x = data.get("pr", data.get("prx"))
        if x is None:
            out.append(["pr", None])
        else:
            if not isinstance(x, list) or len(x) != 2 or not isinstance(x[1], list):
                raise Reject()
            out.append(["pr", ["tuple", [model_class(prog, c["pair"]["a"], x[0], depth + 1),
                                         ["list", [model_class(prog, c["pair"]["b"], y, depth + 1) for y in x[1]]]]]])
    for fi, r in enumerate(c["refs"]):
        key = f"r{fi}"
        cont = r["cont"]
        if key not in data:
            if cont == "req":
                raise Reject()
            dv = {"opt": None, "list": ["list", []], "dict": ["dict", []], "union": 0, "list2": ["list", []], "dictlist": ["dict", []],
                  "array": ["list", []], "obj": ["dict", []], "lorlist": 1}[cont]
            out.append([key, dv])
            continue
        x = data[key]
        if cont == "opt":
            out.append([key, None if x is None else model_class(prog, r["to"], x, depth + 1)])
        elif cont == "req":
            out.append([key, model_class(prog, r["to"], x, depth + 1)])
        elif cont in ("list", "array", "lorlist"):
            if not isinstance(x, list):
                raise Reject()
            out.append([key, ["list", [model_class(prog, r["to"], y, depth + 1) for y in x]]])
        elif cont in ("dict", "obj"):
            if not isinstance(x, dict):
                raise Reject()
            out.append([key, ["dict", [[k, model_class(prog, r["to"], y, depth + 1)] for k, y in x.items()]]])
        elif cont == "union":
            if isinstance(x, dict):
                out.append([key, model_class(prog, r["to"], x, depth + 1)])
            else:
                out.append([key, _to_int(x)])
        elif cont == "list2":
            if not isinstance(x, list) or not all(isinstance(y, list) for y in x):
                raise Reject()
            out.append([key, ["list", [["list", [model_class(prog, r["to"], z, depth + 1) for z in y]] for y in x]]])
        elif cont == "dictlist":
            if not isinstance(x, dict) or not all(isinstance(y, list) for y in x.values()):
                raise Reject()
            out.append([key, ["dict", [[k, ["list", [model_class(prog, r["to"], z, depth + 1) for z in y]]] for k, y in x.items()]]])
    if c.get("addn"):
        ac, at = c["addn"]["cont"], c["addn"]["to"]
        for key, x in data.items():
            if not key.startswith("x"):
                continue
            if ac == "opt":
                out.append([key, None if x is None else model_class(prog, at, x, depth + 1)])
            elif ac == "list":
                if not isinstance(x, list):
                    raise Reject()
                out.append([key, ["list", [model_class(prog, at, y, depth + 1) for y in x]]])
            else:
                if not isinstance(x, dict):
                    raise Reject()
                out.append([key, ["dict", [[k, model_class(prog, at, y, depth + 1)] for k, y in x.items()]]])
    if c.get("lim"):
        lv = _to_int(data.get("lim", 1))
        if not (0 < lv < 10):
            raise Reject()
        out.append(["lim", lv])
        if c.get("lim2"):
            lv2 = _to_int(data.get("lim2", 2))
            if not (0 < lv2 < 1000):
                raise Reject()
            out.append(["lim2", lv2])
    if c.get("pprop") is not None:
        pv = _to_int(data.get("prop", 0))
        out.append(["prop", model_class(prog, c["pprop"], {"v": pv}, depth + 1)])
    kind = "schema" if c.get("base", "schema") == "schema" else "dataclass"
    return [f"{kind}:C{ci}", out]


def model_outcome(prog, use):
    try:
        if use["what"] == "fn2":
            d = use["data"]
            a, b = prog["func2"]["p0"], prog["func2"]["p1"]
            r0 = model_class(prog, a, d["p0"]) if d.get("p0") is not None else None
            r1 = model_class(prog, b, d["p1"]) if d.get("p1") is not None else None
            r2 = [model_class(prog, b, x) for x in d.get("p2", [])]
            return ["ok", kernel.canon_mapping_unordered(["list", [r0, r1, ["list", r2]]])]
        if use["what"] == "gen":
            c = prog["genfn"]["to"]
            n = use["n"]
            ys = [model_class(prog, c, {"v": str(i)}) for i in range(n)]
            ret = model_class(prog, c, {"v": 100 + n}) if prog["genfn"]["form"] == "gen" else None
            return ["ok", kernel.canon_mapping_unordered(["list", [["list", ys], ret]])]
        if use["what"] == "sub":
            m = model_class(prog, use["cls"], use["data"])
            if use.get("deep"):
                return ["ok", kernel.canon_mapping_unordered([m[0].replace(":C", ":E"), m[1] + [["extra", 0], ["more", 0]]])]
            return ["ok", kernel.canon_mapping_unordered([m[0].replace(":C", ":D"), m[1] + [["extra", 0]]])]
        if use["what"] == "fnr":
            return ["ok", kernel.canon_mapping_unordered(model_class(prog, prog["fnr"]["to"], {"v": 7}))]
        if use["what"] == "fn":
            a = model_class(prog, prog["func"]["arg"], use["data"])
            av = dict((k, v) for k, v in a[1])["v"]
            n = _to_int(use.get("n", 0))
            return ["ok", kernel.canon_mapping_unordered(model_class(prog, prog["func"]["ret"], {"v": av + n}))]
        return ["ok", kernel.canon_mapping_unordered(model_class(prog, use["cls"], use["data"]))]
    except Reject:
        return ["exc", "ParseError"]


# ----------------------------------------------------------------------------- generation

def gen_input(rng, prog, ci, depth, bad):
    """A nested dict for class ci; bad = [remaining invalid leaves to plant]."""
    c = prog["classes"][ci]
    d = {}
    if rng.random() < 0.7:
        d["v"] = rng.choice([1, 2, "3", 4])
        if bad[0] and rng.random() < 0.25:
            d["v"] = "zz"
            bad[0] -= 1
    for fi, r in enumerate(c["refs"]):
        key = f"r{fi}"
        give = rng.random() < (0.75 if depth < 2 else 0.25) or r["cont"] == "req"
        if depth >= 4:
            give = False
            if r["cont"] == "req":
                # cannot satisfy a required cycle at the depth cap: leave it out (outcome = rejected, model agrees)
                pass
        if not give:
            continue
        sub = lambda: gen_input(rng, prog, r["to"], depth + 1, bad)  # noqa
        cont = r["cont"]
        if cont == "opt":
            d[key] = None if rng.random() < 0.15 else sub()
        elif cont == "req":
            d[key] = sub()
        elif cont in ("list", "array"):
            d[key] = [sub() for _ in range(rng.choice([0, 1, 2]))]
        elif cont == "lorlist":
            d[key] = [sub() for _ in range(rng.choice([1, 1, 2]))]
        elif cont in ("dict", "obj"):
            d[key] = {"k%d" % j: sub() for j in range(rng.choice([0, 1, 2]))}
        elif cont in ("list2", "dictlist"):
            # (two container levels per class level: keep the whole value within the depth the canonical dump shows)
            sub2 = lambda: gen_input(rng, prog, r["to"], depth + 2, bad)  # noqa
            if cont == "list2":
                d[key] = [[sub2() for _ in range(rng.choice([0, 1, 2]))] for _ in range(rng.choice([1, 1, 2]))]
            else:
                d[key] = {"k%d" % j: [sub2() for _ in range(rng.choice([1, 1, 2]))] for j in range(rng.choice([1, 1, 2]))}
        else:
            if rng.random() < 0.4:
                d[key] = rng.choice([5, "6"])
            else:
                x = sub()
                x.setdefault("v", 1)    # an empty mapping is also a spelling of 0 for the int branch: keep the branches apart
                d[key] = x
    if c.get("disc") and depth < 3 and rng.random() < 0.7:
        t_ = rng.choice([c["disc"]["a"], c["disc"]["b"]])
        x = dict(gen_input(rng, prog, t_, depth + 2, bad))
        x["kind"] = f"c{t_}" if rng.random() < 0.9 else "zz"
        d["dsc"] = x
    if c.get("pair") and depth < 3 and rng.random() < 0.7:
        one = lambda t_: dict(gen_input(rng, prog, t_, depth + 2, bad))  # noqa
        d["prx" if c["pair"].get("annotated") and rng.random() < 0.5 else "pr"] = [one(c["pair"]["a"]), [one(c["pair"]["b"]) for _ in range(rng.choice([1, 1, 2]))]]
    if c.get("addn") and depth < 3:
        for j in range(rng.choice([0, 1, 1, 2])):
            one = lambda: dict(gen_input(rng, prog, c["addn"]["to"], depth + 2, bad))  # noqa
            ac = c["addn"]["cont"]
            d["x%d" % j] = one() if ac == "opt" else [one() for _ in range(rng.choice([1, 2]))] if ac == "list" else {"q": one()}
    if c.get("lim") and rng.random() < 0.5:
        d["lim"] = rng.choice([2, "3", 9, 10, 0])
    if c.get("lim2") and rng.random() < 0.6:
        d["lim2"] = rng.choice([5, 500, "50", 1000, 0])
    if c.get("pprop") is not None and rng.random() < 0.6:
        d["prop"] = rng.choice([1, "2", 7])
    return d


def is_cyclic(prog):
    n = len(prog["classes"])
    adj = {i: {r["to"] for r in prog["classes"][i]["refs"]} | ({prog["classes"][i]["pprop"]} if prog["classes"][i].get("pprop") is not None else set())
           | ({prog["classes"][i]["addn"]["to"]} if prog["classes"][i].get("addn") else set())
           | ({prog["classes"][i]["disc"]["a"], prog["classes"][i]["disc"]["b"]} if prog["classes"][i].get("disc") else set())
           | ({prog["classes"][i]["pair"]["a"], prog["classes"][i]["pair"]["b"]} if prog["classes"][i].get("pair") else set())
           for i in range(n)}
    seen, stack = set(), set()

    def dfs(u):
        seen.add(u)
        stack.add(u)
        for w in adj[u]:
            if w in stack or (w not in seen and dfs(w)):
                return True
        stack.discard(u)
        return False
    return any(dfs(i) for i in range(n) if i not in seen)


def topo(prog):
    n = len(prog["classes"])
    order, done = [], set()

    def visit(u):
        if u in done:
            return
        done.add(u)
        for r in prog["classes"][u]["refs"]:
            visit(r["to"])
        if prog["classes"][u].get("pprop") is not None:
            visit(prog["classes"][u]["pprop"])
        if prog["classes"][u].get("addn"):
            visit(prog["classes"][u]["addn"]["to"])
        for feat in ("disc", "pair"):
            if prog["classes"][u].get(feat):
                visit(prog["classes"][u][feat]["a"])
                visit(prog["classes"][u][feat]["b"])
        order.append(u)
    for i in range(n):
        visit(i)
    return order


SR_USES = [["Sub", {"link": {"extra": 5}}], ["Sub", {"link": {"w": 3}}], ["Sub", {"link": {"v": "1", "link": {"extra": "2"}}}], ["Base", {"link": {"v": 2}}],
           ["Sub", {"many": [{"extra": 1}, {"v": 2}]}], ["Base", {"link": {"w": "zz"}}], ["Sub", {"extra": "7", "link": None}], ["Base", {"many": [{"link": {"w": 1}}]}]]


def generate(rng, tier):
    if rng.random() < 0.03:
        return {"prop": ID, "kind": "self_redefault", "future": rng.random() < 0.5, "order": rng.choice(["bsl", "bls"]),
                "uses": [copy.deepcopy(rng.choice(SR_USES)) for _ in range(rng.choice([1, 2, 3]))], "events": []}
    if rng.random() < 0.04:
        # the first use of a declaration is an attribute assignment (an instance made without parsing)
        return {"prop": ID, "kind": "assign_first", "values": [rng.choice([[{"v": "3"}], [], [{"v": "zz"}], [{"v": 1}, {"v": "2"}]]) for _ in range(rng.choice([1, 2]))],
                "events": []}
    if rng.random() < 0.12:
        # function-local self-referencing class
        plan = {"prop": ID, "kind": "local", "cont2": rng.choice(["list", "dict", "opt", "union"]),
                "collide": rng.random() < 0.4, "events": []}
        prog = {"classes": [{"refs": [{"to": 0, "cont": "opt", "spell": "str"}, {"to": 0, "cont": plan["cont2"], "spell": "str"}]}]}
        if rng.random() < 0.2:
            plan["nested_in_class"] = True
            plan["collide"] = False
            if rng.random() < 0.5:
                plan["nested_outer"] = True
                prog["classes"] = [{"refs": [{"to": 1, "cont": "opt", "spell": "str"}, {"to": 1, "cont": plan["cont2"], "spell": "str"}]},
                                   {"refs": [{"to": 1, "cont": "opt", "spell": "str"}, {"to": 1, "cont": plan["cont2"], "spell": "str"}]}]
        elif rng.random() < 0.3:
            plan["sibling"] = rng.choice(["before", "after"])
            prog["classes"][0]["refs"].append({"to": 1, "cont": "opt", "spell": "str"})
            prog["classes"].append({"refs": []})
            if rng.random() < 0.5:
                # the two local classes name each other
                plan["mutual"] = True
                if plan["sibling"] == "before":
                    # (the earlier class names the later one: with a module-level class of that name around, the string
                    # resolves at the declaration, to that one - there is no direct-reference spelling to compare with)
                    plan["collide"] = False
                prog["classes"][1]["refs"].append({"to": 0, "cont": "opt", "spell": "str"})
        plan["prog"] = prog
        ev = []
        for _ in range(rng.choice([2, 3, 4])):
            bad = [1 if rng.random() < 0.3 else 0]
            ev.append({"ev": "use_local", "data": gen_input(rng, prog, 0, 0, bad)})
        if rng.random() < 0.4:
            ev.insert(rng.randrange(len(ev) + 1), {"ev": "other_module"})
        plan["events"] = ev
        return plan
    n = rng.choice([2, 2, 3])
    future = rng.random() < 0.15
    dag = rng.random() < 0.4     # acyclic programs are judged against the real direct-reference twin
    classes = []
    for ci in range(n):
        refs = []
        for _fi in range(rng.choice([1, 1, 2, 2, 3]) if not (dag and ci == n - 1) else 0):
            to = rng.randrange(n) if not dag else rng.randrange(ci + 1, n)
            cont = rng.choice(["opt", "opt", "list", "list", "dict", "union", "req", "list2", "dictlist", "array", "obj", "lorlist"])
            if to == ci and cont == "req":
                cont = "opt"
            refs.append({"to": to, "cont": cont, "spell": None})
        if len(refs) >= 2 and rng.random() < 0.5:
            # the same name in several (2 or 3) annotations of one class, each in another container
            pool_c = ["opt", "list", "dict", "union"]
            rng.shuffle(pool_c)
            for j in range(1, len(refs)):
                refs[j]["to"] = refs[0]["to"]
            used_c = set()
            for j, r_ in enumerate(refs):
                if r_["cont"] in used_c or (r_["to"] == ci and r_["cont"] == "req") or (dag is False and r_["cont"] == "req" and j > 0):
                    r_["cont"] = next(c for c in pool_c if c not in used_c)
                used_c.add(r_["cont"])
        classes.append({"refs": refs, "base": rng.choice(["schema", "schema", "dataclass"]), "lim": rng.random() < 0.15})
    prog = {"classes": classes, "future": future, "func": {"arg": rng.randrange(n), "ret": rng.randrange(n)}}
    if rng.random() < 0.3:
        prog["func"]["wrapped"] = True
    no_req = [ci for ci in range(n) if not any(r["cont"] == "req" for r in classes[ci]["refs"])]
    if rng.random() < 0.4:
        prog["func2"] = {"p0": rng.randrange(n), "p1": rng.randrange(n)}
    if rng.random() < 0.35 and no_req:
        prog["genfn"] = {"to": rng.choice(no_req), "form": rng.choice(["iter", "gen"])}
    if rng.random() < 0.3:
        prog["sub"] = {"of": rng.randrange(n), "deep": rng.random() < 0.5}
        c0 = classes[prog["sub"]["of"]]
        if c0["refs"] and c0["refs"][0]["cont"] == "opt" and not future and rng.random() < 0.5:
            prog["sub"]["other_module"] = True
    if rng.random() < 0.25 and no_req:
        prog["fnr"] = {"to": rng.choice(no_req)}
    # break required cycles (a required cycle has no finite valid input; keep at most opt/list/... on back edges)
    order = list(range(n))
    rng.shuffle(order)   # definition order
    pos = {c: i for i, c in enumerate(order)}
    for ci in range(n):
        for r in classes[ci]["refs"]:
            if r["cont"] == "req" and pos[r["to"]] >= pos[ci]:
                r["cont"] = "opt"
            choices = ["str", "str", "whole", "dotted"]
            if r["to"] == ci and r["cont"] not in ("lorlist", "array", "obj"):
                # (PosInt | List[Self], Array[Self] are built by the library's operator / subscript in the class body,
                # before there is a class Self could mean: refused at declaration with a message that says so)
                choices.append("self")
            if pos[r["to"]] < pos[ci] and not future:
                choices += ["direct", "direct"]
            # (under postponed evaluation a quoted name inside the annotation gives a string with a nested reference)
            r["spell"] = ("future" if rng.random() < 0.6 else "str") if future else rng.choice(choices)
    # (req containers may have been turned into opt above: recompute which classes can be built from {'v': ..} alone)
    no_req = [ci for ci in range(n) if not any(r["cont"] == "req" for r in classes[ci]["refs"])]
    if "genfn" in prog and prog["genfn"]["to"] not in no_req:
        prog.pop("genfn")
    if "fnr" in prog and prog["fnr"]["to"] not in no_req:
        prog.pop("fnr")
    for c_ in classes:
        if c_.get("lim") and rng.random() < 0.6:
            c_["lim2"] = True
        elif c_.get("lim") and rng.random() < 0.6:
            c_["lim_opt"] = True
        if rng.random() < 0.2:
            c_["finals"] = True
    for ci in range(n):
        # (acyclic programs: only forward in the topological sense, so that the direct twin can be written)
        cands = [t for t in no_req if not dag or t > ci]
        if classes[ci]["base"] == "schema" and cands and rng.random() < 0.15 and not future:
            classes[ci]["addn"] = {"to": rng.choice(cands), "cont": rng.choice(["list", "opt", "dict"])}
    for ci in range(n):
        if classes[ci]["base"] == "schema" and no_req and rng.random() < 0.2 and not future:
            classes[ci]["pprop"] = rng.choice(no_req)
    if n == 3 and rng.random() < 0.2:
        # one class holds a union of the two others chosen by a discriminator: the classes carry a constant field
        ci = 0 if dag else rng.randrange(n)
        a_, b_ = [x for x in range(n) if x != ci]
        if a_ in no_req and b_ in no_req:
            prog["kinds"] = True
            classes[ci]["disc"] = {"a": a_, "b": b_, "spell": "future" if future else rng.choice(["str", "str", "whole"])}
    if n >= 2 and rng.random() < 0.15:
        ci = 0 if dag else rng.randrange(n)
        cands = [x for x in no_req if (x > ci if dag else True)]
        if cands:
            classes[ci]["pair"] = {"a": rng.choice(cands), "b": rng.choice(cands), "spell": "future" if future else rng.choice(["str", "str", "whole"])}
            if not dag and ci in no_req and rng.random() < 0.4:
                classes[ci]["pair"]["b"] = ci
                classes[ci]["pair"]["self_b"] = True
            elif rng.random() < 0.5:
                classes[ci]["pair"]["annotated"] = True
    plan = {"prop": ID, "kind": "module", "prog": prog, "order": order}
    # events: defines in `order` (alias and function somewhere), uses interleaved
    ev = [{"ev": "define", "cls": c} for c in order]
    if any(c.get("lim") for c in classes):
        ev.insert(rng.randrange(len(ev) + 1), {"ev": "define_alias"})
    ev.insert(rng.randrange(len(ev) + 1), {"ev": "define_fn"})
    if "func2" in prog:
        ev.insert(rng.randrange(len(ev) + 1), {"ev": "define_fn2"})
    if "genfn" in prog:
        ev.insert(rng.randrange(len(ev) + 1), {"ev": "define_gen"})
    if "fnr" in prog:
        ev.insert(rng.randrange(len(ev) + 1), {"ev": "define_fnr"})
    if "sub" in prog:
        # a subclass can only be declared after its base
        at = [i for i, e in enumerate(ev) if e["ev"] == "define" and e["cls"] == prog["sub"]["of"]][0]
        ev.insert(rng.randrange(at + 1, len(ev) + 1), {"ev": "define_sub"})
    uses = []
    for _ in range(rng.choice([2, 3, 4, 5])):
        bad = [1 if rng.random() < 0.3 else 0]
        if rng.random() < 0.25:
            uses.append({"ev": "use", "what": "fn", "data": gen_input(rng, prog, prog["func"]["arg"], 0, bad), "n": rng.choice([0, 1, "2"])})
        else:
            ci = rng.randrange(n)
            uses.append({"ev": "use", "what": "cls", "cls": ci, "data": gen_input(rng, prog, ci, 0, bad)})
    if "func2" in prog:
        for _ in range(rng.choice([1, 2])):
            bad = [1 if rng.random() < 0.25 else 0]
            d = {}
            if rng.random() < 0.35:
                d["p0"] = gen_input(rng, prog, prog["func2"]["p0"], 1, bad)
            if rng.random() < 0.8:
                d["p1"] = gen_input(rng, prog, prog["func2"]["p1"], 1, bad)
            if rng.random() < 0.4:
                d["p2"] = [gen_input(rng, prog, prog["func2"]["p1"], 2, bad) for _j in range(rng.choice([1, 2]))]
            uses.append({"ev": "use", "what": "fn2", "data": d})
    if "genfn" in prog:
        uses.append({"ev": "use", "what": "gen", "n": rng.choice([1, 2, 3]), "data": {}})
    if "fnr" in prog:
        uses.append({"ev": "use", "what": "fnr", "data": {}})
    if "sub" in prog:
        for _ in range(rng.choice([1, 2])):
            bad = [1 if rng.random() < 0.25 else 0]
            uses.append({"ev": "use", "what": "sub", "cls": prog["sub"]["of"], "deep": bool(prog["sub"].get("deep")) and rng.random() < 0.7,
                         "data": gen_input(rng, prog, prog["sub"]["of"], 0, bad)})
    if rng.random() < 0.3:
        uses.append({"ev": "schema", "cls": rng.randrange(n)})
    if rng.random() < 0.3:
        uses.append({"ev": "other_module"})
    early = rng.random() < 0.35     # allow uses between definitions (some of them premature)
    for u in uses:
        lo = 0 if early else len(ev) - sum(1 for e in ev if e["ev"].startswith("use") or e["ev"] in ("schema", "other_module"))
        lo = min(lo, len(ev))
        ev.insert(rng.randrange(lo, len(ev) + 1), u)
    plan["events"] = ev
    return plan


# ----------------------------------------------------------------------------- execution

def _outcome(fn):
    from utype.utils.exceptions import ParseError
    try:
        v = fn()
    except ParseError:
        return ["exc", "ParseError"]
    except Exception as e:  # noqa
        return ["exc", type(e).__name__, kernel.clean_text(e, 100)]
    return ["ok", kernel.canon_mapping_unordered(kernel.canon(v))]


def _needs(prog, ci, seen=None):
    """Classes reachable from ci (names that must exist for a use of ci to be well-defined)."""
    seen = seen if seen is not None else set()
    if ci in seen:
        return seen
    seen.add(ci)
    for r in prog["classes"][ci]["refs"]:
        _needs(prog, r["to"], seen)
    if prog["classes"][ci].get("pprop") is not None:
        _needs(prog, prog["classes"][ci]["pprop"], seen)
    if prog["classes"][ci].get("addn"):
        _needs(prog, prog["classes"][ci]["addn"]["to"], seen)
    for feat in ("disc", "pair"):
        if prog["classes"][ci].get(feat):
            _needs(prog, prog["classes"][ci][feat]["a"], seen)
            _needs(prog, prog["classes"][ci][feat]["b"], seen)
    return seen


def _special_call(mod, S, prog, u):
    if u["what"] == "fn2":
        f = getattr(mod, "fn2" + S)
        return lambda: f(**copy.deepcopy(u["data"]))
    if u["what"] == "gen":
        g = getattr(mod, "gen" + S)

        def drive():
            it = g(u["n"])
            ys = []
            ret = None
            while True:
                try:
                    ys.append(next(it))
                except StopIteration as e:
                    ret = e.value
                    break
            return [ys, ret]
        return drive
    if u["what"] == "fnr":
        f = getattr(mod, "fnr" + S)
        return lambda: f()
    cls = getattr(mod, f"{'E' if u.get('deep') else 'D'}{u['cls']}{S}")
    return lambda: cls.__from__(copy.deepcopy(u["data"]))


def direct_schema(prog, ci):
    """JSON schema of class ci in a fresh direct-reference twin (names normalised)."""
    from utype.specs.json_schema.generator import JsonSchemaGenerator
    S = "__" + kernel.new_suffix()
    src = [HEADER, alias_source(S)]
    for c in topo(prog):
        src.append(class_source(prog, c, S, direct=True))
    mod = kernel.make_module("verif_c17_directschema_" + S.strip("_"), "\n".join(src))
    try:
        out = JsonSchemaGenerator(getattr(mod, f"C{ci}{S}"))()
    except Exception:  # noqa
        return None
    return json.loads(kernel._SUFFIX.sub("", json.dumps(out, sort_keys=True, default=str)))


def run_direct_twin(prog, uses):
    """The same program with direct references, classes in dependency order; only for acyclic programs."""
    S = "__" + kernel.new_suffix()
    src = [HEADER, alias_source(S)]
    for ci in topo(prog):
        src.append(class_source(prog, ci, S, direct=True))
    src.append(func_source(prog, S, direct=True))
    if "func2" in prog:
        src.append(func2_source(prog, S, direct=True))
    if "genfn" in prog:
        src.append(gen_source(prog, S, direct=True))
    if "sub" in prog:
        src.append(sub_source(prog, S))
    if "fnr" in prog:
        src.append(fnr_source(prog, S, direct=True))
    mod = kernel.make_module("verif_c17_direct_" + S.strip("_"), "\n".join(src))
    out = []
    for u in uses:
        if u["what"] in ("fn2", "gen", "sub", "fnr"):
            out.append(_outcome(_special_call(mod, S, prog, u)))
        elif u["what"] == "fn":
            f = getattr(mod, "fn" + S)
            out.append(_outcome(lambda: f(copy.deepcopy(u["data"]), u.get("n", 0))))
        else:
            cls = getattr(mod, f"C{u['cls']}{S}")
            out.append(_outcome(lambda: cls.__from__(copy.deepcopy(u["data"]))))
    return out


def assign_first_source(S, direct):
    leaf = f"class Leaf{S}(Schema):\n    v: int = 0\n"
    node = (f"@utype.dataclass(no_parse=True, set_class_properties=True)\nclass Node{S}:\n    v: int = 0\n"
            f"    kids: List[{'Leaf' + S if direct else repr('Leaf' + S)}] = Field(default_factory=list)\n")
    return HEADER + (leaf + node if direct else node + leaf)


def execute_assign_first(plan):
    res = RunResult()
    kernel.reset_world()
    faults.register_leaves()
    outs = []
    for direct in (True, False):
        S = "__" + kernel.new_suffix()
        mod = kernel.make_module("verif_c17_af_" + S.strip("_"), assign_first_source(S, direct))
        inst = getattr(mod, "Node" + S)()
        got = []
        for v in plan["values"]:
            def assign():
                inst.kids = copy.deepcopy(v)
                return inst.kids
            got.append(_outcome(assign))
        outs.append(got)
    res.ev("direct", outs[0])
    res.ev("by-reference", outs[1])
    res.stats["probe:first_use_is_an_assignment"] += 1
    for n, (d, r) in enumerate(zip(*outs)):
        if d != r:
            res.violate(f"C17|assign_first|{_kind(r, d)}",
                        f"assignment #{n} inst.kids = {plan['values'][n]} on an instance made without parsing gave {kernel.jdump(r)[:160]}, "
                        f"the declaration with direct references gives {kernel.jdump(d)[:160]}")
            break
    res.nontrivial = kernel.digest_of(["assign_first", plan["values"]])
    return res


def self_redefault_source(S, direct, future, order):
    """Self inside an annotation that can only be evaluated at the first parse (it also names a class defined later),
    inherited by a subclass that gives the field its default again: Self means the subclass there."""
    later = f"class Later{S}(Schema):\n    w: int = 0\n"
    a = f"Union[Self, Later{S}, None]"
    if not direct and not future:
        a = repr(a)
    base = f"class Base{S}(Schema):\n    v: int = 0\n    link: {a} = None\n    many: {('List[Self]' if direct or future else repr('List[Self]'))} = Field(default_factory=list)\n"
    sub = f"class Sub{S}(Base{S}):\n    link = None\n    extra: int = 0\n"
    hdr = ("from __future__ import annotations\n" if future and not direct else "") + HEADER
    if direct:
        return hdr + later + base + sub
    return hdr + {"bsl": base + sub + later, "bls": base + later + sub}[order]


def execute_self_redefault(plan):
    res = RunResult()
    kernel.reset_world()
    faults.register_leaves()
    outs = []
    for direct in (True, False):
        S = "__" + kernel.new_suffix()
        mod = kernel.make_module("verif_c17_sr_" + S.strip("_"), self_redefault_source(S, direct, plan["future"], plan["order"]))
        got = []
        for cls, data in plan["uses"]:
            got.append(_outcome(lambda: getattr(mod, cls + S).__from__(copy.deepcopy(data))))
        outs.append(got)
    res.ev("direct", outs[0])
    res.ev("by-reference", outs[1])
    res.stats["probe:self_in_inherited_lazy_annotation"] += 1
    if plan["future"]:
        res.stats["probe:future_annotations"] += 1
    for n, (d, r) in enumerate(zip(*outs)):
        if d != r:
            res.violate(f"C17|self_redefault|{'future' if plan['future'] else 'quoted'}|{plan['uses'][n][0]}|{_kind(r, d)}",
                        f"use #{n} {plan['uses'][n]} gave {kernel.jdump(r)[:200]}, the declaration with direct references gives {kernel.jdump(d)[:200]}")
            break
    res.nontrivial = kernel.digest_of(["self_redefault", plan["future"], plan["order"], plan["uses"]])
    return res


def execute(plan):
    if plan.get("kind") == "assign_first":
        return execute_assign_first(plan)
    if plan.get("kind") == "self_redefault":
        return execute_self_redefault(plan)
    res = RunResult()
    kernel.reset_world()
    faults.register_leaves()
    prog = plan["prog"]
    S = "__" + kernel.new_suffix()
    if plan["kind"] == "local":
        mod = kernel.make_module("verif_c17_loc_" + S.strip("_"), HEADER + (nested_source(S, plan["cont2"], plan.get("nested_outer")) if plan.get("nested_in_class") else
                                                                            local_source(S, plan["cont2"], plan.get("collide"), plan.get("sibling"), plan.get("mutual"))))
        if plan.get("nested_in_class"):
            res.stats["probe:class_nested_in_class_body"] += 1
        if plan.get("sibling"):
            res.stats["probe:local_sibling_reference"] += 1
        if plan.get("collide"):
            res.stats["probe:local_name_collides_with_module"] += 1
        res.stats["probe:local_class"] += 1
        for n, e in enumerate(plan["events"]):
            if e["ev"] == "other_module":
                om = kernel.make_module("verif_c17_loc_other_" + S.strip("_"),
                                        HEADER + "class Loc(Schema):\n    v: str = 'o'\n    r0: Optional['Loc'] = None\n    r1: List['Loc'] = Field(default_factory=list)\n")
                _outcome(lambda: om.Loc.__from__({"r0": {"r0": {}}, "r1": [{}]}))
                res.stats["probe:other_module_used_first"] += 1
                res.stats["fault:other_module_same_names"] += 1
                res.ev(n, "other_module")
                continue
            mk = getattr(mod, "make" + S)
            got = _outcome(lambda: mk().__from__(copy.deepcopy(e["data"])))
            try:
                if plan.get("nested_outer"):
                    m = json.loads(json.dumps(model_class(prog, 0, e["data"])).replace('"schema:C0"', '"schema:Outer"').replace('"schema:C1"', '"schema:Loc"'))
                elif plan.get("sibling"):
                    m = json.loads(json.dumps(model_class(prog, 0, e["data"])).replace('"schema:C0"', '"schema:Loc"').replace('"schema:C1"', '"schema:Leaf"'))
                else:
                    m = _relabel(model_class(prog, 0, e["data"]), "schema:Loc")
                want = ["ok", kernel.canon_mapping_unordered(m)]
            except Reject:
                want = ["exc", "ParseError"]
            res.ev(n, "use_local", got)
            if got != want:
                kd = _kind(got, want)
                if plan.get("sibling") and got[:2] == ["exc", "NameError"]:
                    kd = "NameError"      # (one fingerprint whatever the input: the first parse fails before it looks at it)
                res.violate(f"C17|{'nested_outer' if plan.get('nested_outer') else 'nested' if plan.get('nested_in_class') else 'local'}|{'sibling_' + plan['sibling'] if plan.get('sibling') else plan['cont2']}|{kd}",
                            f"event #{n} use of the function-local class with {e['data']} gave {kernel.jdump(got)[:200]}, expected {kernel.jdump(want)[:200]}")
                break
            res.nontrivial = True
        if res.nontrivial:
            res.nontrivial = kernel.digest_of([plan["kind"], plan["cont2"], plan.get("collide"), [e["ev"] for e in plan["events"]]])
        return res

    mod = kernel.make_module("verif_c17_" + S.strip("_"),
                             ("from __future__ import annotations\n" if prog.get("future") else "") + HEADER)
    cyclic = is_cyclic(prog)
    if cyclic:
        res.stats["probe:cyclic_program"] += 1
    if prog.get("future"):
        res.stats["probe:future_annotations"] += 1
    for c in prog["classes"]:
        tos = [(r["to"]) for r in c["refs"]]
        if len(tos) != len(set(tos)):
            res.stats["probe:same_target_twice"] += 1
        if len(tos) == 3 and len(set(tos)) == 1:
            res.stats["probe:same_target_three_times"] += 1
        for r in c["refs"]:
            if r["spell"] == "whole":
                res.stats["probe:whole_quoted"] += 1
            if r["spell"] == "self":
                res.stats["probe:self_spelling"] += 1
        if c.get("lim"):
            res.stats["probe:constrained_ref"] += 1
    uses = [e for e in plan["events"] if e["ev"] == "use"]
    model = [model_outcome(prog, u) for u in uses]
    if not cyclic:
        direct = run_direct_twin(prog, uses)
        for m, d in zip(model, direct):
            if m != d:
                res.stats["probe:model_vs_direct_disagree"] += 1
        want_all = direct
        res.stats["probe:acyclic_direct_twin"] += 1
    else:
        want_all = model
    defined = set()
    extra_defined = set()
    alias_defined = not any(c.get("lim") for c in prog["classes"])
    fn_defined = False
    pending_seen = False
    future_hdr = "from __future__ import annotations\n" if prog.get("future") else ""
    ui = 0
    for n, e in enumerate(plan["events"]):
        k = e["ev"]
        if k == "define":
            ci = e["cls"]
            c = prog["classes"][ci]
            if any(r["to"] not in defined and r["spell"] != "direct" for r in c["refs"]) or (c.get("lim") and not alias_defined):
                pending_seen = True
            src = class_source(prog, ci, S)
            try:
                if prog.get("future"):
                    # postponed evaluation is a property of the compilation unit: compile this piece with the flag
                    code = compile(future_hdr + src, f"<{mod.__name__}>", "exec")
                    exec(code, mod.__dict__)
                else:
                    kernel.exec_into(mod, src)
            except Exception as e:  # noqa
                # the same declaration written with direct references (classes in dependency order) is accepted
                res.violate(f"C17|module|define|declaration_rejected:{type(e).__name__}",
                            f"event #{n}: declaring class C{ci} failed with {type(e).__name__}: {kernel.clean_text(e, 160)}; source:\n{kernel._SUFFIX.sub('', src)}")
                break
            defined.add(ci)
            res.ev(n, "define", ci)
        elif k == "define_alias":
            kernel.exec_into(mod, alias_source(S))
            alias_defined = True
            res.ev(n, "define_alias")
        elif k == "define_fn":
            kernel.exec_into(mod, func_source(prog, S))
            fn_defined = True
            if prog["func"]["arg"] not in defined or prog["func"]["ret"] not in defined:
                pending_seen = True
            res.ev(n, "define_fn")
        elif k in ("define_fn2", "define_gen", "define_sub", "define_fnr"):
            src = {"define_fn2": func2_source, "define_gen": gen_source, "define_fnr": fnr_source}.get(k)
            src = src(prog, S) if src else sub_source(prog, S)
            if k == "define_sub" and _sub_other(prog):
                # declared in a module of its own that imports the base class (and none of the names the base refers to)
                c_ = prog["sub"]["of"]
                sm = kernel.make_module("verif_c17_submod_" + S.strip("_"), HEADER + f"from {mod.__name__} import C{c_}{S}\n" + src)
                for nm in (f"D{c_}{S}", f"E{c_}{S}"):
                    if nm in sm.__dict__:
                        mod.__dict__[nm] = sm.__dict__[nm]
                res.stats["probe:subclass_in_other_module"] += 1
            elif prog.get("future"):
                exec(compile(future_hdr + src, f"<{mod.__name__}>", "exec"), mod.__dict__)
            else:
                kernel.exec_into(mod, src)
            extra_defined.add(k)
            pending_seen = True
            res.ev(n, k)
        elif k == "other_module":
            # (under postponed evaluation the other module is compiled that way too: both then reach typing's own
            # evaluation of the nested, cached reference objects)
            om = kernel.make_module("verif_c17_other_" + S.strip("_"), future_hdr + other_module_source(prog, S))
            o = _outcome(lambda: getattr(om, "C0" + S).__from__({"v": "x", "r0": {"v": "y"}, "r1": [{"v": "z"}], "r2": {"k": {}}}))
            res.stats["probe:other_module_used_first"] += 1
            res.stats["fault:other_module_same_names"] += 1
            res.ev(n, "other_module", o[0])
        elif k == "schema":
            ci = e["cls"]
            if ci in defined:
                from utype.specs.json_schema.generator import JsonSchemaGenerator
                box = {}

                def gen_schema():
                    box["s"] = JsonSchemaGenerator(getattr(mod, f"C{ci}{S}"))()
                o = _outcome(gen_schema)
                res.stats["probe:schema_generated"] += 1
                res.ev(n, "schema", ci, o[0])
                # the generated JSON schema is another reader of the resolved types: for acyclic programs whose names all
                # exist it must be the schema of the direct-reference twin
                if not cyclic and _needs(prog, ci).issubset(defined) and (alias_defined or not any(prog["classes"][c].get("lim") for c in _needs(prog, ci))):
                    want_s = direct_schema(prog, ci)
                    got_s = json.loads(kernel._SUFFIX.sub("", json.dumps(box.get("s"), sort_keys=True, default=str))) if "s" in box else o
                    if want_s is not None and got_s != want_s:
                        # not a clause of C17 (it speaks about parsing inputs; schema generation is C13's subject, and it does
                        # not resolve pending references before a first parse): counted, not judged
                        res.stats["probe:json_schema_differs_from_direct"] += 1
        elif k == "use":
            want = want_all[ui]
            ui += 1
            if e["what"] in ("fn2", "gen", "sub", "fnr"):
                need_def = {"fn2": "define_fn2", "gen": "define_gen", "sub": "define_sub", "fnr": "define_fnr"}[e["what"]]
                if need_def not in extra_defined:
                    res.ev(n, "use", e["what"], "skipped(undefined)")
                    continue
                if e["what"] == "fn2":
                    # a function tolerates names that do not exist yet as long as the call does not hand in a value for them
                    needs = set()
                    if e["data"].get("p0") is not None:
                        needs |= _needs(prog, prog["func2"]["p0"])
                    if e["data"].get("p1") is not None or e["data"].get("p2"):
                        needs |= _needs(prog, prog["func2"]["p1"])
                elif e["what"] == "gen":
                    needs = _needs(prog, prog["genfn"]["to"])
                elif e["what"] == "fnr":
                    needs = _needs(prog, prog["fnr"]["to"])
                else:
                    needs = _needs(prog, e["cls"])
                call = _special_call(mod, S, prog, e)
            elif e["what"] == "fn":
                if not fn_defined:
                    res.ev(n, "use", "fn", "skipped(undefined)")
                    continue
                needs = _needs(prog, prog["func"]["arg"]) | _needs(prog, prog["func"]["ret"])
                target = getattr(mod, "fn" + S)
                call = lambda: target(copy.deepcopy(e["data"]), e.get("n", 0))  # noqa
            else:
                if e["cls"] not in defined:
                    res.ev(n, "use", e["cls"], "skipped(undefined)")
                    continue
                needs = _needs(prog, e["cls"])
                target = getattr(mod, f"C{e['cls']}{S}")
                call = lambda: target.__from__(copy.deepcopy(e["data"]))  # noqa
            lim_needed = any(prog["classes"][c].get("lim") for c in needs)
            premature = not needs.issubset(defined) or (lim_needed and not alias_defined)
            got = _outcome(call)
            if premature:
                res.stats["probe:premature_use"] += 1
                res.stats["fault:premature_use"] += 1
                res.ev(n, "use", e.get("cls", "fn"), "premature", got[0])
                continue
            res.ev(n, "use", e.get("cls", "fn"), got)
            if e["what"] == "fn2" and not (_needs(prog, prog["func2"]["p0"]) | _needs(prog, prog["func2"]["p1"])).issubset(defined):
                res.stats["probe:function_partially_resolvable"] += 1
            if e["what"] == "gen":
                res.stats["probe:generator_types_by_reference"] += 1
            if e["what"] == "sub":
                res.stats["probe:subclass_used"] += 1
            if e["what"] == "cls" and prog["classes"][e["cls"]].get("pprop") is not None:
                res.stats["probe:property_output_by_reference"] += 1
            if pending_seen:
                res.stats["probe:pending_then_resolved"] += 1
                res.nontrivial = True
            if got != want:
                spells = sorted({r["spell"] + ":" + r["cont"] for c in needs for r in prog["classes"][c]["refs"]})
                res.violate(f"C17|module|{'cyclic' if cyclic else 'acyclic'}|{e['what']}|{_kind(got, want)}",
                            f"event #{n} {e} gave {kernel.jdump(got)[:220]} but the direct-reference program gives {kernel.jdump(want)[:220]}; "
                            f"spellings on the path: {spells}; event order {[x['ev'] + str(x.get('cls', '')) for x in plan['events']]}")
                break
    if res.nontrivial:
        res.nontrivial = kernel.digest_of([prog, [[x["ev"], x.get("cls")] for x in plan["events"]]])
    return res


def _relabel(c, name):
    """Model dumps are labelled schema:C0; the local class is called Loc."""
    if isinstance(c, list) and len(c) == 2 and isinstance(c[0], str) and c[0].startswith(("schema:", "dataclass:")):
        return [name, [[k, _relabel(v, name)] for k, v in c[1]]]
    if isinstance(c, list):
        return [_relabel(x, name) for x in c]
    return c


def _kind(got, want):
    if got[0] == "exc" and want[0] == "ok":
        return "rejects_valid:" + got[1]
    if got[0] == "ok" and want[0] == "exc":
        return "accepts_invalid"
    if got[0] == "exc":
        return "exc_class:" + got[1]
    return "value"


# ----------------------------------------------------------------------------- shrinking

def shrink(plan):
    if plan.get("kind") == "assign_first":
        for i in range(len(plan["values"])):
            if len(plan["values"]) > 1:
                p = copy.deepcopy(plan)
                p["values"].pop(i)
                yield p
        return
    if plan.get("kind") == "self_redefault":
        for i in range(len(plan["uses"])):
            if len(plan["uses"]) > 1:
                p = copy.deepcopy(plan)
                p["uses"].pop(i)
                yield p
        return
    yield from _shrink(plan)


def _shrink(plan):
    ev = plan["events"]
    for i in range(len(ev) - 1, -1, -1):
        if ev[i]["ev"] in ("use", "use_local", "schema", "other_module"):
            p = copy.deepcopy(plan)
            p["events"].pop(i)
            yield p
    if plan["kind"] != "module":
        for i, e in enumerate(ev):
            if e["ev"] == "use_local":
                for key in list(e["data"]):
                    p = copy.deepcopy(plan)
                    p["events"][i]["data"].pop(key)
                    yield p
        return
    prog = plan["prog"]
    # simplify inputs
    for i, e in enumerate(ev):
        if e["ev"] == "use":
            for key in list(e["data"]):
                p = copy.deepcopy(plan)
                p["events"][i]["data"].pop(key)
                yield p
    # drop reference fields (inputs lose the key)
    for ci, c in enumerate(prog["classes"]):
        for fi in range(len(c["refs"]) - 1, -1, -1):
            if len(c["refs"]) > 1 and fi == len(c["refs"]) - 1:
                p = copy.deepcopy(plan)
                p["prog"]["classes"][ci]["refs"].pop(fi)
                _strip_key(p, ci, f"r{fi}")
                yield p
        if c.get("lim"):
            p = copy.deepcopy(plan)
            p["prog"]["classes"][ci]["lim"] = False
            _strip_key(p, ci, "lim")
            yield p
    # simpler spellings / containers
    for ci, c in enumerate(prog["classes"]):
        for fi, r in enumerate(c["refs"]):
            if r["spell"] in ("whole", "self"):
                p = copy.deepcopy(plan)
                p["prog"]["classes"][ci]["refs"][fi]["spell"] = "str"
                yield p
    # move uses to the end (less interleaving)
    uses = [e for e in ev if e["ev"] in ("use", "schema", "other_module")]
    rest = [e for e in ev if e["ev"] not in ("use", "schema", "other_module")]
    if ev != rest + uses:
        p = copy.deepcopy(plan)
        p["events"] = copy.deepcopy(rest + uses)
        yield p


def _strip_key(plan, ci, key):
    """Remove `key` from every dict that is parsed as class ci in the plan's inputs."""
    prog = plan["prog"]

    def walk(c, d):
        if not isinstance(d, dict):
            return
        if c == ci:
            d.pop(key, None)
        for fi, r in enumerate(prog["classes"][c]["refs"]):
            x = d.get(f"r{fi}")
            if isinstance(x, dict) and r["cont"] in ("opt", "req", "union"):
                walk(r["to"], x)
            elif isinstance(x, list):
                for y in x:
                    walk(r["to"], y)
            elif isinstance(x, dict) and r["cont"] in ("dict", "obj"):
                for y in x.values():
                    walk(r["to"], y)
    for e in plan["events"]:
        if e["ev"] != "use":
            continue
        w = e["what"]
        if w == "fn":
            walk(prog["func"]["arg"], e["data"])
        elif w in ("cls", "sub"):
            walk(e["cls"], e["data"])
        elif w == "fn2":
            walk(prog["func2"]["p0"], e["data"].get("p0"))
            walk(prog["func2"]["p1"], e["data"].get("p1"))
            for x in e["data"].get("p2", []):
                walk(prog["func2"]["p1"], x)
