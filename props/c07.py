"""C07 -- data-class instances stay valid under every sequence of mutations.

History machine: one data class per run (dict-based Schema or attribute-based DataClass), one instance, a
seeded sequence of public mutating operations with valid / convertible / invalid / faulted arguments. After
every operation the invariants of the statement are evaluated on every live instance (the instance and the
copies taken from it); a single-key operation that raised must have left the data as it was.
Faults: the leaf converter rejects the value being assigned, the property setter raises at its n-th call, the
mapping handed to update()/|= fails in the middle of its iteration protocol.
"""
import copy

from sim import kernel, faults
from sim.runner import RunResult

ID = "C07"
RULE = ("plan = (base Schema|DataClass, fields declared in the class or inherited from a base class with other options, "
        "mode-dependent required field with the mode set on the class or by runtime options, subset of fields required int / optional str / List[Leaf] with factory / "
        "constrained int / immutable int / aliased+alias_from(+case-insensitive) int / no_output int / optional Leaf / "
        "read-only @property depending on two fields / writable @property with a dependant property; class options "
        "addition None|True|False|Leaf, ignore_delete_nonexistent, immutable; 6-20 operations setattr/delattr/"
        "setitem/delitem by name, alias and case variant/update(m)/update(**kw)/pop/popitem/setdefault/clear/|=/copy; "
        "leaf, setter-hook and input-protocol faults); non-trivial = a failed operation followed by a successful one on "
        "the same field, or a deletion followed by a set; distinct by operation-sequence digest")
ASSUMPTIONS = [
    "views are compared through the public API only (key in inst / inst[key] / dict(inst) vs getattr); the private __dict__ mirror of a Schema is used only for the unchanged-after-failure snapshot",
    "conformance predicate is written for exactly the field kinds of the world (int, str, List[Leaf], int>=0, Leaf)",
    "a property is compared with its definition only while every field it depends on is present",
    "multi-key update()/|= may stop half-way: every applied key must still satisfy the invariants; the unchanged-after-failure clause is applied to single-key operations only",
    "plain Python attribute assignment of a name that is not a field is ordinary object behaviour and is not generated",
    "'preserve' policies and defer_default are not part of the world (documented as unsafe / intentionally two-view); one optional field carries on_error='exclude'",
]
COMPONENTS = {
    "real": ["Schema.__setitem__/__delitem__/__field_setter__/__field_deleter__/__field_getter__/pop/popitem/update/clear/copy/__coerce_property__",
             "dict methods Schema inherits (setdefault, |=, ...)", "ClassParser.make_setter/make_deleter/make_getter/assign_properties",
             "ParserField.parse_value/is_required/immutable", "BaseParser.parse_addition"],
    "stub": ["leaf converter (fault site)", "property getter/setter bodies (hook fault site)", "FaultyDict argument of update"],
}
TIERS = {
    "quick": {"runs": 16000, "chunk": 100, "selftest": 64, "minimise_s": 40},
    "thorough": {"budget_s": 600, "chunk": 300, "selftest": 512, "minimise_s": 90},
}
PROBES = ["failed_then_ok_same_field", "delete_then_set", "dependant_recomputed", "setter_hook_fault", "input_fault_in_update",
          "leaf_fault_on_assign", "copy_mutated", "alias_spelling_used", "addition_key"]

# field kind -> (attname, output name, spellings accepted as key)
FIELD_INFO = {
    "req":   {"att": "req", "name": "req", "keys": ["req"], "type": "int"},
    "opt":   {"att": "opt", "name": "opt", "keys": ["opt"], "type": "str"},
    "its":   {"att": "its", "name": "its", "keys": ["its"], "type": "leaflist"},
    "pos":   {"att": "pos", "name": "pos", "keys": ["pos"], "type": "posint"},
    "fin":   {"att": "fin", "name": "fin", "keys": ["fin"], "type": "int"},
    "ali":   {"att": "ali", "name": "AL", "keys": ["AL", "ali", "al2"], "type": "int"},
    "hid":   {"att": "hid", "name": "hid", "keys": ["hid"], "type": "int"},
    "lf":    {"att": "lf", "name": "lf", "keys": ["lf"], "type": "leaf"},
    "mreq":  {"att": "mreq", "name": "mreq", "keys": ["mreq"], "type": "int"},
    "exo":   {"att": "exo", "name": "exo", "keys": ["exo"], "type": "int"},
    "total": {"att": "total", "name": "total", "keys": ["total"], "type": "int"},
    "w":     {"att": "w", "name": "w", "keys": ["w"], "type": "posint"},
    "w2":    {"att": "w2", "name": "w2", "keys": ["w2"], "type": "int"},
    "hsum":  {"att": "hsum", "name": "hsum", "keys": ["hsum"], "type": "int"},
    "num":   {"att": "num", "name": "num", "keys": ["num"], "type": "anynum"},
    "camF":  {"att": "camF", "name": "camF", "keys": ["camF", "camf", "CAMF"], "type": "int"},
    "cdep":  {"att": "cdep", "name": "cdep", "keys": ["cdep"], "type": "int"},
    "camA":  {"att": "camA", "name": "AlF", "keys": ["AlF", "alf", "ALF", "camA", "cama"], "type": "int"},
    "adep":  {"att": "adep", "name": "adep", "keys": ["adep"], "type": "int"},
    "nkind": {"att": "nkind", "name": "nkind", "keys": ["nkind"], "type": "str"},
    "tt":    {"att": "tt", "name": "tt", "keys": ["tt"], "type": "int"},
    "hp":    {"att": "hp", "name": "hp", "keys": ["hp"], "type": "int"},
    "wd":    {"att": "wd", "name": "wd", "keys": ["wd"], "type": "int"},
    "r2":    {"att": "r2", "name": "r2", "keys": ["r2"], "type": "int"},
    "ratio": {"att": "ratio", "name": "ratio", "keys": ["ratio"], "type": "int"},
    "dbl":   {"att": "dbl", "name": "dbl", "keys": ["dbl"], "type": "posint"},
    "tb":    {"att": "tb", "name": "tb", "keys": ["tb"], "type": "int"},
    "td":    {"att": "td", "name": "td", "keys": ["td"], "type": "int"},
}
ORDER = ["req", "opt", "its", "pos", "fin", "ali", "hid", "lf", "mreq", "exo", "total", "w", "num", "camF", "camA"]


def source(plan):
    fs = plan["fields"]
    base = "Schema" if plan["base"] == "schema" else "DataClass"
    o = plan["options"]
    okw = []
    if o.get("addition") is not None:
        okw.append("addition=%s" % ("Leaf" if o["addition"] == "leaf" else repr(o["addition"])))
    for k in ("ignore_delete_nonexistent", "immutable", "collect_errors"):
        if o.get(k):
            okw.append(f"{k}=True")
    if o.get("invalid_values"):
        okw.append(f"invalid_values={o['invalid_values']!r}")
    if plan.get("mode") == "class":
        okw.append("mode='w'")
    L = ["from utype import Schema, DataClass, Field, Options", "from typing import List, Optional, Final",
         "from sim.faults import Leaf, hook_point", ""]
    if plan.get("inherit"):
        # the fields live in a base class with default options; the class under test only brings its options
        L += [f"class M({base}):", "    pass"]
        tail = ["", "class B(M):", f"    __options__ = Options({', '.join(okw)})"]
    else:
        L += [f"class M({base}):", f"    __options__ = Options({', '.join(okw)})"]
        tail = []
    if "req" in fs:
        L.append("    req: int = 0" if plan.get("noreq") else "    req: int")
    if "opt" in fs:
        L.append("    opt: str = 'd'")
    if "its" in fs:
        L.append("    its: List[Leaf] = Field(default_factory=list)")
    if "pos" in fs:
        L.append("    pos: int = Field(ge=0, default=1)")
    if "fin" in fs:
        L.append("    fin: Final[int] = Field(ge=-100)" if plan.get("fin_final") else "    fin: int = Field(immutable=True)")
    if "ali" in fs:
        L.append("    ali: int = Field(alias='AL', alias_from=['al2'], default=7%s)" % (", case_insensitive=True" if plan.get("ci") else ""))
    if "hid" in fs:
        L.append("    hid: int = Field(no_output=True, default=0)")
    if "lf" in fs:
        L.append("    lf: Leaf = Field(required=False)")
    if "mreq" in fs:
        L.append("    mreq: int = Field(required='w')" if plan.get("mreq_nodefault") else "    mreq: int = Field(required='w', default=5)")
    if "exo" in fs:
        L.append("    exo: int = Field(required=False, on_error='exclude')")
    if "total" in fs:
        L += ["    @property", "    @Field(dependencies=['req', 'pos'])", "    def total(self) -> int:",
              "        return self.req * 10 + self.pos"]
    if "total" in fs and plan.get("tt"):
        # a property that depends on a property: a change of req / pos has to reach it through total
        L += ["    @property", "    @Field(dependencies=['total'])", "    def tt(self) -> int:", "        return self.total + 1000"]
    if "hid" in fs and "pos" in fs and plan["base"] == "schema" and plan.get("hp"):
        # depends on a field kept out of the key view AND on an ordinary one
        L += ["    @property", "    @Field(dependencies=['hid', 'pos'])", "    def hp(self) -> int:", "        return self.hid + self.pos + 1000"]
    if plan.get("wd"):
        # a property with a getter and a deleter, no setter
        L += ["    _wd = 7", "    @property", "    def wd(self) -> int:", "        return self._wd",
              "    @wd.deleter", "    def wd(self):", "        self._wd = 0"]
    if "pos" in fs and plan.get("ratio"):
        # a getter that cannot be computed for every valid value of its field (pos = 0)
        L += ["    @property", "    @Field(dependencies=['pos'])", "    def ratio(self) -> int:", "        return 100 // self.pos",
              # ... and a property on top of it: when ratio goes, r2 has nothing to stand on
              "    @property", "    @Field(dependencies=['ratio'])", "    def r2(self) -> int:", "        return self.ratio + 1"]
    if plan.get("dbl"):
        # a property whose declared output type rejects what some valid values of its field give (req < 0)
        L.insert(2, "from utype import Rule")
        L.insert(3, "class PosI(int, Rule):\n    ge = 0\n")
        L += ["    @property", "    @Field(dependencies=['req'])", "    def dbl(self) -> PosI:", "        return self.req * 2"]
    if "total" in fs and plan.get("diamond"):
        # a diamond: req -> total, req -> tb, and td depends on both: it has to be computed after both
        L += ["    @property", "    @Field(dependencies=['req'])", "    def tb(self) -> int:", "        return self.req + 1",
              "    @property", "    @Field(dependencies=['total', 'tb'])", "    def td(self) -> int:", "        return self.total * 100 + self.tb"]
    if "hid" in fs and plan["base"] == "schema" and plan.get("hsum"):
        # a property that depends on a field which is kept out of the key view
        L += ["    @property", "    @Field(dependencies=['hid'])", "    def hsum(self) -> int:",
              "        return self.hid + 100"]
    if "camF" in fs:
        # a case-insensitive field whose name has capitals, and a property that depends on it
        L += ["    camF: int = Field(case_insensitive=True, default=1)", "    @property", "    @Field(dependencies=['camF'])",
              "    def cdep(self) -> int:", "        return self.camF + 7"]
    if "camA" in fs:
        # ... and one that also has an alias (the key of the data), named by its attribute in the dependency
        L += ["    camA: int = Field(case_insensitive=True, alias='AlF', default=1)", "    @property", "    @Field(dependencies=['camA'])",
              "    def adep(self) -> int:", "        return self.camA + 9"]
    if "num" in fs:
        # values that compare equal need not be the same value (1 == True == 1.0): the dependant tells them apart
        L.insert(1, "from typing import Any")
        L += ["    num: Any = 1", "    @property", "    @Field(dependencies=['num'])", "    def nkind(self) -> str:",
              "        return type(self.num).__name__"]
    if "w" in fs:
        L += ["    _w = 0", "    @property", "    def w(self) -> int:", "        return self._w",
              "    @w.setter", "    def w(self, v: int = Field(ge=0, required=False)):",
              ("        self._w = v" if plan.get("w_late") else "        hook_point('set_w')"),
              ("        hook_point('set_w')     # fails after it has changed the instance" if plan.get("w_late") else "        self._w = v"),
              "    @w.deleter", "    def w(self):", "        self._w = 0",
              *(["        hook_point('del_w')     # fails after it has changed the instance"] if plan.get("w_late") else []),
              # (in some plans nothing depends on w: a setter that fails late is then the only reason for a rollback)
              *([] if plan.get("w_alone") else ["    @property", "    @Field(dependencies=w)", "    def w2(self) -> int:", "        return self._w * 2"])]
    if plan.get("inherit") and L[-1] == "    pass" and len(fs) > 0:
        pass
    src = "\n".join(L + tail) + "\n"
    if plan.get("inherit"):
        # class under test is the subclass: rename so that the harness keeps using the name M
        src = src.replace("class M(", "class Base_(", 1).replace("class B(M):", "class M(Base_):", 1).replace("    pass\n", "", 1)
    return src


# ----------------------------------------------------------------------------- generation

INT_VALUES = [3, 0, 12, "5", {"$b": "6"}, 7.0, "zz", [1, 2], None, {"$set": [1, 2]}, -4, "-2", True, False]
STR_VALUES = ["s", 5, {"$b": "x"}, None, ["q"], {"a": 1}]


def _value_for(rng, kind, pool):
    t = FIELD_INFO[kind]["type"] if kind in FIELD_INFO else "any"
    if t in ("int", "posint"):
        return rng.choice(INT_VALUES)
    if t == "str":
        return rng.choice(STR_VALUES)
    if t == "anynum":
        return rng.choice([1, True, 1.0, 0, False, 0.0, 2, "1"])
    if t == "leaf":
        r = rng.random()
        if r < 0.8:
            return {"$r": pool.next()}
        return rng.choice(["zz", 3, None])
    if t == "leaflist":
        r = rng.random()
        if r < 0.75:
            return [{"$r": pool.next()} for _ in range(rng.choice([0, 1, 2, 3]))]
        return rng.choice(["zz", [1], None, {"$r": pool.next()}])
    return rng.choice([1, "u", {"$r": pool.next()}, None, [1]])


class _Pool:
    def __init__(self):
        self.n = 1
        self.used = []

    def next(self):
        self.n += 1
        self.used.append(self.n - 1)
        return self.n - 1


def _spell(rng, plan, kind):
    keys = FIELD_INFO[kind]["keys"]
    k = rng.choice(keys)
    if kind == "ali" and plan.get("ci") and rng.random() < 0.4:
        k = rng.choice(["al", "Al2", "aL2", "ALI", "al"])
    return k


def generate(rng, tier):
    base = rng.choice(["schema", "schema", "schema", "dataclass"])
    fs = ["req"] + [k for k in ORDER[1:] if rng.random() < 0.55]
    if "total" in fs and "pos" not in fs:
        fs.append("pos")
    fs = [k for k in ORDER if k in fs]
    plan = {"prop": ID, "base": base, "fields": fs, "ci": rng.random() < 0.4,
            "options": {}, "inherit": rng.random() < 0.3, "mode": None}
    plan["fin_final"] = rng.random() < 0.4
    plan["hsum"] = "hid" in fs and base == "schema" and rng.random() < 0.6
    plan["tt"] = "total" in fs and rng.random() < 0.5
    plan["diamond"] = "total" in fs and rng.random() < 0.4
    plan["ratio"] = "pos" in fs and base == "schema" and rng.random() < 0.35
    plan["hp"] = "hid" in fs and "pos" in fs and base == "schema" and rng.random() < 0.5
    plan["wd"] = rng.random() < 0.2
    plan["w_late"] = "w" in fs and rng.random() < 0.4
    plan["w_alone"] = "w" in fs and rng.random() < 0.35
    plan["dbl"] = base == "schema" and rng.random() < 0.3
    # no field without a default (and no immutable one): clear() and popitem() can go all the way
    plan["noreq"] = "fin" not in fs and rng.random() < 0.35
    if "mreq" in fs:
        plan["mreq_nodefault"] = rng.random() < 0.4
        plan["mode"] = rng.choice([None, "class", "runtime"])
    o = plan["options"]
    r = rng.random()
    if r < 0.6:
        o["addition"] = rng.choice([True, False, "leaf"])
    if rng.random() < 0.3:
        o["ignore_delete_nonexistent"] = True
    if rng.random() < 0.2:
        o["collect_errors"] = True
    if rng.random() < 0.15:
        o["invalid_values"] = "exclude"     # an invalid value leaves the field out (or at its default) instead of raising
    if rng.random() < (0.12 if plan["inherit"] else 0.04):
        o["immutable"] = True
    pool = _Pool()
    init = {"req": rng.choice([1, "2"])}
    if "fin" in fs:
        init["fin"] = rng.choice([5, "6"])
    for k in fs:
        if k in ("opt", "pos", "hid", "ali") and rng.random() < 0.5:
            init[FIELD_INFO[k]["keys"][0]] = {"opt": "o", "pos": 2, "hid": 4, "ali": 8}[k]
        if k == "lf" and rng.random() < 0.5:
            init["lf"] = {"$r": pool.next()}
        if k == "its" and rng.random() < 0.5:
            init["its"] = [{"$r": pool.next()}]
        if k == "w" and rng.random() < 0.5:
            init["w"] = 3
    if "mreq" in fs and (plan["mode"] or rng.random() < 0.5):
        init["mreq"] = rng.choice([6, "7"])
    if plan["base"] == "schema" and o.get("addition") in (True, "leaf") and rng.random() < 0.4:
        # an additional (undeclared) item from the start: the initialization makes it readable as an attribute too
        init[rng.choice(["x1", "x2"])] = {"$r": pool.next()} if o["addition"] == "leaf" else rng.choice([1, "u", [1]])
    plan["init"] = init
    init_pids = list(pool.used)
    targets = [k for k in fs] + (["wd", "wd"] if plan.get("wd") else []) + (["w2"] if "w" in fs and not plan.get("w_alone") else []) + (["nkind"] if "num" in fs and rng.random() < 0.3 else [])
    nops = rng.choice([6, 8, 10, 14, 20]) if tier == "quick" else rng.choice([8, 12, 16, 24])
    ops = []
    schema_ops = ["setattr", "setattr", "delattr", "setitem", "setitem", "delitem", "update_m", "update_kw", "pop", "pop_d",
                  "popitem", "setdefault", "setdefault_v", "clear", "ior", "copy", "setitem_x", "update_x", "inst_arg"]
    dc_ops = ["setattr", "setattr", "setattr", "delattr"]
    for _ in range(nops):
        kind = rng.choice(schema_ops if base == "schema" else dc_ops)
        f = rng.choice(targets)
        op = {"op": kind}
        if kind in ("setattr", "delattr"):
            op["field"] = f
            if kind == "setattr":
                op["value"] = _value_for(rng, f, pool)
        elif kind in ("setitem", "delitem", "pop", "pop_d", "setdefault", "setdefault_v"):
            op["field"] = f
            op["key"] = _spell(rng, plan, f)
            if kind in ("setitem", "setdefault_v"):
                op["value"] = _value_for(rng, f, pool)
            if kind == "pop_d":
                op["value"] = "dflt"
        elif kind == "inst_arg":
            # another valid instance of the same class as the argument of update() / |=
            other = {"req": rng.choice([3, "4"])}
            if "fin" in fs:
                other["fin"] = rng.choice([init["fin"], 9, "10"])
            for k2 in fs:
                if k2 in ("pos", "opt", "hid") and rng.random() < 0.5:
                    other[k2] = {"pos": 7, "opt": "q", "hid": 2}[k2]
            if plan["mode"] and "mreq" in fs:
                other["mreq"] = 8
            op = {"op": rng.choice(["update_inst", "ior_inst"]), "other": other}
        elif kind in ("setitem_x",):
            op["op"] = "setitem"
            op["field"] = None
            op["key"] = rng.choice(["x1", "x2"])
            op["value"] = _value_for(rng, "any", pool)
        elif kind in ("update_m", "update_kw", "ior", "update_x"):
            n = rng.choice([1, 1, 2, 3])
            items = []
            for _j in range(n):
                g = rng.choice(targets)
                if kind == "update_x" or rng.random() < 0.15:
                    items.append([rng.choice(["x1", "x2"]), _value_for(rng, "any", pool), None])
                else:
                    k = _spell(rng, plan, g)
                    if kind == "update_kw" and not k.isidentifier():
                        k = FIELD_INFO[g]["att"]
                    items.append([k, _value_for(rng, g, pool), g])
            op["items"] = items
            if kind == "update_x":
                op["op"] = rng.choice(["update_m", "ior"])
            if op["op"] in ("update_m", "ior") and rng.random() < 0.25:
                op["faulty"] = True
        ops.append(op)
    plan["ops"] = ops
    fl = {}
    for pid in pool.used:
        if pid not in init_pids and rng.random() < 0.25:
            fl[str(pid)] = rng.choice(["ValueError", "TypeError", "OSError", "KeyError", "SimFault"])
    plan["faults"] = {"leaf": fl}
    if "w" in fs and rng.random() < 0.4:
        plan["faults"]["hook"] = {"set_w": {str(rng.choice([1, 2, 3])): rng.choice(["ValueError", "OSError", "SimFault"])}}
        # faults without workload test nothing: make sure the setter is called a few times with acceptable values
        for _ in range(3):
            how = rng.choice(["setattr", "setitem", "update_m"])
            v = rng.choice([3, 0, 12, "5"])
            o2 = {"op": how, "field": "w", "value": v} if how == "setattr" else (
                {"op": how, "field": "w", "key": "w", "value": v} if how == "setitem" else {"op": how, "items": [["w", v, "w"]]})
            ops.insert(rng.randrange(len(ops) + 1), o2)
        if plan.get("w_late") and rng.random() < 0.5:
            # ... and the deleter, which fails after it has changed the instance
            plan["faults"]["hook"]["del_w"] = {str(rng.choice([1, 1, 2])): rng.choice(["ValueError", "OSError", "SimFault"])}
            for _ in range(2):
                ops.insert(rng.randrange(len(ops) + 1), {"op": "delattr", "field": "w"})
    if rng.random() < 0.3:
        plan["faults"]["input"] = {"fd.items.next": {str(rng.choice([1, 2, 3])): rng.choice(["OSError", "KeyError"])},
                                   "fd.__getitem__": {str(rng.choice([2, 3])): "OSError"}}
    return plan


# ----------------------------------------------------------------------------- execution helpers

def _val(v):
    if isinstance(v, dict):
        if "$r" in v:
            return faults.Raw(v["$r"])
        if "$b" in v:
            return v["$b"].encode()
        if "$set" in v:
            return set(v["$set"])
        return {k: _val(x) for k, x in v.items()}
    if isinstance(v, list):
        return [_val(x) for x in v]
    return v


def conforms(kind, v):
    t = FIELD_INFO[kind]["type"]
    # (exactly the declared type: a bool is converted to 1 / 0 at initialization, so it must be on assignment too)
    if t == "int":
        return type(v) is int
    if t == "posint":
        return type(v) is int and v >= 0
    if t == "str":
        return isinstance(v, str)
    if t == "leaf":
        return type(v) is faults.Leaf
    if t == "leaflist":
        return type(v) is list and all(type(x) is faults.Leaf for x in v)
    return True


_MISSING = object()


def read_attr(inst, att):
    try:
        return getattr(inst, att)
    except AttributeError:
        return _MISSING
    except Exception:  # noqa  a property body computing over already-broken data; the broken field itself is reported
        if att in ("total", "w", "w2", "hsum", "nkind", "tt", "tb", "td", "ratio", "dbl", "cdep", "adep", "hp", "wd", "r2"):
            return _MISSING
        raise


class View:
    """What the public API shows of one instance."""

    def __init__(self, plan, inst):
        self.keys = {}
        self.attrs = {}
        self.extra = {}
        is_schema = plan["base"] == "schema"
        names = {}
        all_kinds = list(plan["fields"]) + (["w2"] if "w" in plan["fields"] and not plan.get("w_alone") else []) + (["hsum"] if plan.get("hsum") else []) + (["nkind"] if "num" in plan["fields"] else []) + (["tt"] if plan.get("tt") else []) + (["tb", "td"] if plan.get("diamond") else []) + (["cdep"] if "camF" in plan["fields"] else []) + (["adep"] if "camA" in plan["fields"] else []) + (["hp"] if plan.get("hp") else []) + (["wd"] if plan.get("wd") else []) + (["ratio", "r2"] if plan.get("ratio") else []) + (["dbl"] if plan.get("dbl") else [])
        for k in all_kinds:
            names[FIELD_INFO[k]["name"]] = k
        if is_schema:
            for key, val in dict.items(inst):
                if key in names:
                    self.keys[names[key]] = val
                else:
                    self.extra[key] = val
        else:
            for k in all_kinds:
                att = FIELD_INFO[k]["att"]
                if att in inst.__dict__:
                    self.keys[k] = inst.__dict__[att]
        for k in all_kinds:
            a = read_attr(inst, FIELD_INFO[k]["att"])
            if a is not _MISSING:
                self.attrs[k] = a

    def snapshot(self, inst):
        priv = {k: v for k, v in inst.__dict__.items() if not k.startswith("__")}
        return kernel.jdump([kernel.canon(self.keys), kernel.canon(self.extra), kernel.canon(priv)])


def check_invariants(plan, inst, initial, res, opname, field, current=True, touched=()):
    """Returns list of (invariant id, field kind, text)."""
    out = []
    v = View(plan, inst)
    fs = plan["fields"]
    is_schema = plan["base"] == "schema"
    props = {"total", "w", "w2", "hsum", "nkind", "tt", "tb", "td", "ratio", "dbl", "cdep", "adep", "hp", "wd", "r2"}
    # I1 conformance of every present field, in both views
    for k, val in v.keys.items():
        if not conforms(k, val):
            out.append(("I1", k, f"key view holds non-conforming {k}={val!r}"))
    for k, val in v.attrs.items():
        if not conforms(k, val):
            out.append(("I1", k, f"attribute view holds non-conforming {k}={val!r}"))
    # I2 required present
    for k in (() if plan.get("noreq") else ("req",)) + ("fin",) + (("mreq",) if plan.get("mode") else ()):
        if k in fs:
            if k not in v.keys:
                out.append(("I2", k, f"required field {k} is gone from the data"))
    # I3 immutable fields hold their initial value
    if "fin" in fs:
        for view, name in ((v.keys, "key"), (v.attrs, "attribute")):
            if "fin" in view and view["fin"] != initial["fin"]:
                out.append(("I3", "fin", f"immutable field changed in the {name} view: {initial['fin']!r} -> {view['fin']!r}"))
    if plan["options"].get("immutable"):
        if v.snapshot(inst) != initial["snapshot"]:
            out.append(("I3", "class", "instance of an immutable class changed"))
    # I4 key view and attribute view agree
    if is_schema:
        for k in list(fs) + (["w2"] if "w" in fs and not plan.get("w_alone") else []) + (["hsum"] if plan.get("hsum") else []) + (["nkind"] if "num" in fs else []) + (["tt"] if plan.get("tt") else []) + (["tb", "td"] if plan.get("diamond") else []) + (["cdep"] if "camF" in plan["fields"] else []) + (["adep"] if "camA" in plan["fields"] else []) + (["hp"] if plan.get("hp") else []) + (["wd"] if plan.get("wd") else []) + (["ratio", "r2"] if plan.get("ratio") else []) + (["dbl"] if plan.get("dbl") else []):
            if k == "hid":
                if "hid" in v.keys:
                    out.append(("I4", k, "no_output field present in the key view"))
                continue
            in_k, in_a = k in v.keys, k in v.attrs
            if in_k and in_a:
                if v.keys[k] != v.attrs[k] or type(v.keys[k]) is not type(v.attrs[k]):
                    out.append(("I4", k, f"views disagree on {k}: key {v.keys[k]!r} vs attribute {v.attrs[k]!r}"))
            elif in_k and not in_a:
                out.append(("I4", k, f"{k} present as key but not readable as attribute"))
            elif in_a and not in_k and k not in props:
                out.append(("I4", k, f"{k} absent from the keys but still reads back {v.attrs[k]!r} as attribute"))
    if is_schema:
        # ... also for the additional (undeclared) items, which the initialization makes readable as attributes too
        known_att = {info["att"] for info in FIELD_INFO.values()}
        for key, val in v.extra.items():
            if key in inst.__dict__ and (inst.__dict__[key] != val or type(inst.__dict__[key]) is not type(val)):
                out.append(("I4", "extra", f"views disagree on the additional item {key}: key {val!r} vs attribute {inst.__dict__[key]!r}"))
        for key, val in inst.__dict__.items():
            if not key.startswith("_") and key not in known_att and key not in v.extra and not dict.__contains__(inst, key):
                out.append(("I4", "extra", f"the additional item {key} is gone from the keys but still reads back {val!r} as attribute"))
    # I5 dependants recomputed
    if "total" in fs and is_schema:
        if "req" in v.keys and "pos" in v.keys and conforms("req", v.keys["req"]) and conforms("pos", v.keys["pos"]):
            want = v.keys["req"] * 10 + v.keys["pos"]
            if "total" in v.keys and v.keys["total"] != want:
                out.append(("I5", "total", f"total={v.keys['total']!r} but req*10+pos={want!r}"))
    if plan.get("tt") and is_schema and "req" in v.keys and "pos" in v.keys and conforms("req", v.keys["req"]) and conforms("pos", v.keys["pos"]):
        want = v.keys["req"] * 10 + v.keys["pos"] + 1000
        if "tt" in v.keys and v.keys["tt"] != want:
            out.append(("I5", "tt", f"tt={v.keys['tt']!r} but req*10+pos+1000={want!r} (a property that depends on the property total)"))
    if "camF" in fs and is_schema and "camF" in v.keys and conforms("camF", v.keys["camF"]):
        if "cdep" in v.keys and v.keys["cdep"] != v.keys["camF"] + 7:
            out.append(("I5", "cdep", f"cdep={v.keys['cdep']!r} but camF+7={v.keys['camF'] + 7!r}"))
    if "camA" in fs and is_schema and "camA" in v.keys and conforms("camA", v.keys["camA"]):
        if "adep" in v.keys and v.keys["adep"] != v.keys["camA"] + 9:
            out.append(("I5", "adep", f"adep={v.keys['adep']!r} but camA+9={v.keys['camA'] + 9!r}"))
    if plan.get("hp") and is_schema and "hid" in v.attrs and conforms("hid", v.attrs["hid"]) and "pos" in v.keys and conforms("pos", v.keys["pos"]):
        want = v.attrs["hid"] + v.keys["pos"] + 1000
        assigning = opname in ("setattr", "setitem", "update_m", "update_kw", "ior", "update_inst", "ior_inst", "init")
        # (its key may have been removed on purpose - pop / popitem / del of the property itself -: absence is judged right
        # after an assignment only)
        if ("hp" in v.keys and v.keys["hp"] != want) or ("hp" not in v.keys and assigning and current and (opname == "init" or {"pos", "hid"} & set(touched))):
            out.append(("I5", "hp", f"hp={v.keys.get('hp', '<absent>')!r} but hid+pos+1000={want!r} (both of its dependencies are there)"))
    if plan.get("ratio") and is_schema and "pos" in v.keys and conforms("pos", v.keys["pos"]):
        if v.keys["pos"] == 0 and "r2" in v.keys:
            out.append(("I5", "r2", f"r2={v.keys['r2']!r} is still there although ratio, which it is made of, cannot be computed for pos=0"))
        elif v.keys["pos"] != 0 and "r2" in v.keys and "ratio" in v.keys and v.keys["r2"] != v.keys["ratio"] + 1:
            out.append(("I5", "r2", f"r2={v.keys['r2']!r} but ratio+1={v.keys['ratio'] + 1!r}"))
        if v.keys["pos"] == 0 and "ratio" in v.keys:
            out.append(("I5", "ratio", f"ratio={v.keys['ratio']!r} is still there although it cannot be computed for pos=0 (an instance initialized with pos=0 has no ratio)"))
        elif v.keys["pos"] != 0 and "ratio" in v.keys and v.keys["ratio"] != 100 // v.keys["pos"]:
            out.append(("I5", "ratio", f"ratio={v.keys['ratio']!r} but 100//pos={100 // v.keys['pos']!r}"))
    if plan.get("dbl") and is_schema and "req" in v.keys and conforms("req", v.keys["req"]):
        if "dbl" in v.keys and v.keys["dbl"] != v.keys["req"] * 2:
            out.append(("I5", "dbl", f"dbl={v.keys['dbl']!r} but req*2={v.keys['req'] * 2!r}"))
    if plan.get("diamond") and is_schema and "req" in v.keys and "pos" in v.keys and conforms("req", v.keys["req"]) and conforms("pos", v.keys["pos"]):
        want = (v.keys["req"] * 10 + v.keys["pos"]) * 100 + v.keys["req"] + 1
        if "td" in v.keys and v.keys["td"] != want:
            out.append(("I5", "td", f"td={v.keys['td']!r} but total*100+tb={want!r} (td depends on the properties total and tb, both depend on req)"))
    if "total" in fs and not is_schema:
        if "req" in v.keys and "pos" in v.keys and conforms("req", v.keys["req"]) and conforms("pos", v.keys["pos"]):
            want = v.keys["req"] * 10 + v.keys["pos"]
            if v.attrs.get("total", want) != want:
                out.append(("I5", "total", f"total={v.attrs.get('total')!r} but req*10+pos={want!r}"))
    if plan.get("hsum") and is_schema and "hid" in v.attrs and conforms("hid", v.attrs["hid"]):
        if "hsum" in v.keys and v.keys["hsum"] != v.attrs["hid"] + 100:
            out.append(("I5", "hsum", f"hsum={v.keys['hsum']!r} but hid={v.attrs['hid']!r}"))
    if "num" in fs and is_schema and "num" in v.keys and "nkind" in v.keys and v.keys["nkind"] != type(v.keys["num"]).__name__:
        out.append(("I5", "nkind", f"nkind={v.keys['nkind']!r} but num={v.keys['num']!r}"))
    if "w" in fs and is_schema:
        if "w" in v.keys and "w2" in v.keys and conforms("w", v.keys["w"]) and v.keys["w2"] != v.keys["w"] * 2:
            out.append(("I5", "w2", f"w2={v.keys['w2']!r} but w={v.keys['w']!r}"))
        # (only for the instance being mutated: copies share the private attribute storage, see DESIGN 3.7)
        if current and "w" in v.keys and "w" in v.attrs and v.keys["w"] != inst._w:
            out.append(("I5", "w", f"key w={v.keys['w']!r} but the property's storage holds {inst._w!r}"))
    # I7 unknown keys only as the addition policy allows
    add = plan["options"].get("addition")
    for key, val in v.extra.items():
        if add in (None, False):
            out.append(("I7", "extra", f"unknown key {key!r} present although addition={add!r}"))
        elif add == "leaf" and type(val) is not faults.Leaf:
            out.append(("I7", "extra", f"unknown key {key!r} holds unparsed {val!r} although addition is typed"))
    return out, v


def apply_op(plan, inst, op, res):
    """Executes one operation; returns (raised?, single_key?, new_instance_or_None)."""
    k = op["op"]
    if k == "setattr":
        setattr(inst, FIELD_INFO[op["field"]]["att"], _val(op["value"]))
    elif k == "delattr":
        delattr(inst, FIELD_INFO[op["field"]]["att"])
    elif k == "setitem":
        inst[op["key"]] = _val(op["value"])
    elif k == "delitem":
        del inst[op["key"]]
    elif k == "pop":
        inst.pop(op["key"])
    elif k == "pop_d":
        inst.pop(op["key"], op["value"])
    elif k == "popitem":
        inst.popitem()
    elif k == "setdefault":
        inst.setdefault(op["key"])
    elif k == "setdefault_v":
        inst.setdefault(op["key"], _val(op["value"]))
    elif k == "clear":
        inst.clear()
    elif k in ("update_m", "ior", "update_kw"):
        data = {key: _val(val) for key, val, _g in op["items"]}
        if k == "update_kw":
            inst.update(**data)
        else:
            m = faults.FaultyDict(data) if op.get("faulty") else data
            if k == "update_m":
                inst.update(m)
            else:
                inst |= m
                return inst
    elif k in ("update_inst", "ior_inst"):
        other = _make(plan, type(inst), op["other"])
        if k == "update_inst":
            inst.update(other)
        else:
            inst |= other
            return inst
    elif k == "copy":
        return inst.copy()
    else:
        raise ValueError(k)
    return None


def _make(plan, M, data):
    data = {k: _val(v) for k, v in data.items()}
    if plan.get("mode") == "runtime":
        from utype import Options
        okw = {k: v for k, v in plan["options"].items()}
        if okw.get("addition") == "leaf":
            okw["addition"] = faults.Leaf
        return M.__from__(data, options=Options(mode="w", **okw))
    return M(**data)


SINGLE = {"setattr", "delattr", "setitem", "delitem", "pop", "pop_d", "popitem", "setdefault", "setdefault_v"}


def execute(plan):
    res = RunResult()
    kernel.reset_world()
    faults.register_leaves()
    mod = kernel.make_module("verif_c07_mod", source(plan))
    M = mod.M
    try:
        inst = _make(plan, M, plan["init"])
    except Exception as e:  # noqa
        raise kernel.HarnessError(f"C07 world: initial instance rejected: {type(e).__name__}: {e}")
    faults.set_plan(plan["faults"])
    base = plan["base"]
    v0 = View(plan, inst)
    initial = {"fin": v0.keys.get("fin"), "snapshot": v0.snapshot(inst)}
    viol0, _ = check_invariants(plan, inst, initial, res, "init", None)
    for inv, fk, text in viol0:
        res.violate(f"C07|{base}|init|{inv}|{fk}", f"after construction: {text}")
    live = [inst]
    failed_fields = set()
    deleted_fields = set()
    for n, op in enumerate(plan["ops"]):
        cur = live[-1]
        before = [View(plan, x).snapshot(x) for x in live]
        before_view = View(plan, cur)
        raised = None
        new = None
        fired0 = dict(faults.STATE.fired)
        try:
            new = apply_op(plan, cur, op, res)
        except Exception as e:  # noqa
            raised = e
        res.stats["op:" + op["op"]] += 1
        for kind in ("leaf_fail", "hook_fail", "input_fail"):
            d = faults.STATE.fired.get(kind, 0) - fired0.get(kind, 0)
            if d:
                res.stats["fault:" + kind] += d
                res.stats["probe:" + {"leaf_fail": "leaf_fault_on_assign", "hook_fail": "setter_hook_fault",
                                      "input_fail": "input_fault_in_update"}[kind]] += 1
        if new is not None and new is not cur:
            live.append(new)
            if len(live) > 3:
                live.pop(0)
            res.stats["probe:copy_mutated"] += 1
        f = op.get("field")
        opname = op["op"]
        single = opname in SINGLE or (opname in ("update_m", "update_kw", "ior") and len(op["items"]) == 1)
        res.ev(n, opname, op.get("key") or f, "raised:" + type(raised).__name__ if raised else "ok")
        # I6: a single-key operation that raised left the data as it was
        if raised is not None and single:
            after = View(plan, cur).snapshot(cur)
            if after != before[-1]:
                res.violate(f"C07|{base}|{opname}|I6|{f or 'extra'}",
                            f"op #{n} {op} raised {type(raised).__name__} but changed the data: {before[-1][:150]} -> {after[:150]}")
        # the other live instances (originals of copies) keep their own invariants as well
        for idx, x in enumerate(live):
            touched = {f} if f else {it[2] for it in op.get("items", []) if it[2]} | ({"pos", "hid"} & set(op.get("other") or {}))
            viol, view = check_invariants(plan, x, initial, res, opname, f, current=x is live[-1], touched=touched if raised is None else ())
            for inv, fk, text in viol:
                who = "" if x is live[-1] else " (on an earlier instance a copy was taken from)"
                res.violate(f"C07|{base}|{opname}|{inv}|{fk}", f"after op #{n} {op}{who}: {text}")
            if x is live[-1]:
                res.states.add(kernel.digest_of([sorted(view.keys), sorted(view.attrs), sorted(view.extra)]))
        # probes / non-triviality
        key = op.get("key")
        if key and f and key != FIELD_INFO[f]["name"]:
            res.stats["probe:alias_spelling_used"] += 1
        if opname in ("setitem",) and f is None:
            res.stats["probe:addition_key"] += 1
        if f:
            if raised is not None:
                failed_fields.add(f)
            else:
                if f in failed_fields and opname in ("setattr", "setitem"):
                    res.stats["probe:failed_then_ok_same_field"] += 1
                    res.nontrivial = True
                if opname in ("delattr", "delitem", "pop", "pop_d"):
                    deleted_fields.add(f)
                elif opname in ("setattr", "setitem") and f in deleted_fields:
                    res.stats["probe:delete_then_set"] += 1
                    res.nontrivial = True
                if f in ("req", "pos", "w") and opname in ("setattr", "setitem"):
                    res.stats["probe:dependant_recomputed"] += 1
        if res.violations:
            break
    if res.nontrivial:
        res.nontrivial = kernel.digest_of([plan["base"], plan["fields"], plan["options"], plan.get("inherit"), plan.get("mode"), plan.get("fin_final"),
                                           [[o["op"], o.get("key") or o.get("field")] for o in plan["ops"]]])
    return res


# ----------------------------------------------------------------------------- shrinking

def shrink(plan):
    for i in range(len(plan["ops"]) - 1, -1, -1):
        p = copy.deepcopy(plan)
        p["ops"].pop(i)
        yield p
    for k in list(plan["options"]):
        p = copy.deepcopy(plan)
        p["options"].pop(k)
        yield p
    if plan.get("ci"):
        p = copy.deepcopy(plan)
        p["ci"] = False
        yield p
    if plan.get("inherit"):
        p = copy.deepcopy(plan)
        p["inherit"] = False
        yield p
    if plan.get("mode") == "runtime":
        p = copy.deepcopy(plan)
        p["mode"] = "class"
        yield p
    used = set()
    for o in plan["ops"]:
        if o.get("field"):
            used.add(o["field"])
        for it in o.get("items", []):
            if it[2]:
                used.add(it[2])
    for k in list(plan["fields"]):
        if k in ("req",) or k in used or k == "w2":
            continue
        if k == "pos" and "total" in plan["fields"]:
            continue
        if k == "num" and "nkind" in used:
            continue
        p = copy.deepcopy(plan)
        p["fields"].remove(k)
        for key in list(p["init"]):
            if key in FIELD_INFO[k]["keys"]:
                p["init"].pop(key)
        yield p
    for sect in ("leaf", "hook", "input"):
        for k in list((plan["faults"].get(sect) or {})):
            p = copy.deepcopy(plan)
            p["faults"][sect].pop(k)
            yield p
    for i, o in enumerate(plan["ops"]):
        if "items" in o and len(o["items"]) > 1:
            for j in range(len(o["items"])):
                p = copy.deepcopy(plan)
                p["ops"][i]["items"].pop(j)
                yield p
        if o.get("faulty"):
            p = copy.deepcopy(plan)
            p["ops"][i]["faulty"] = False
            yield p
    if plan["base"] == "schema" and all(o["op"] in ("setattr", "delattr") for o in plan["ops"]) and "w" not in plan["fields"]:
        p = copy.deepcopy(plan)
        p["base"] = "dataclass"
        yield p
