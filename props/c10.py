"""C10 -- collecting errors changes reporting only, never the verdict or the value.

The set of failing items is injected (leaf faults + structural faults: dropped required keys,
excess keys), so ground truth for "which items must be reported" does not come from utype's own
validation logic. Each plan is executed fail-fast and collecting (max_errors None/1/2/3) plus a
fault-free control.
"""
import copy

from sim import kernel, faults, tdsl
from sim.runner import RunResult

ID = "C10"
RULE = ("plan = (schema/dataclass/function declaration over leaf-typed scalars, containers, unions; input of raw "
        "payloads; constrained (Rule) leaves and '&' combinations; alias_from with one field given under two spellings; "
        "ignore_constraints; leaf fault set; dropped required keys; excess keys; max_errors); each plan runs fail-fast, "
        "collecting and fault-free; non-trivial = >=2 failing top-level items or a fault below depth 1, fault fired; "
        "distinct by (declaration digest, failing-item set G, max_errors)")
ASSUMPTIONS = [
    "an item is failing iff a fail-fast parse of that item alone against its declared type is rejected under the same fault set (unions: every branch faulted)",
    "reported names are compared as a set; for *args/**kwargs elements the position/key after the ':' of utype's route name identifies the item",
    "the fault-free control of every plan must be accepted, else harness error",
]
COMPONENTS = {
    "real": ["RuntimeContext.handle_error/raise_error/enter", "BaseParser.parse_data (both strategies)", "ParserField.parse_value",
             "Rule.parse and args parsers", "LogicalType.logical_parse tmp errors", "FunctionParser.parse_params", "CollectedParseError"],
    "stub": ["leaf converter (fault site)", "payload objects"],
}
TIERS = {
    "quick": {"runs": 24000, "chunk": 100, "selftest": 64, "minimise_s": 30},
    "thorough": {"budget_s": 600, "chunk": 400, "selftest": 512, "minimise_s": 90},
}
PROBES = ["union_all_branches_fail", "nested_fault", "max_errors_cut", "excess_key", "dropped_required", "varargs_fault",
          "alias_conflict", "all_of_type_fault", "ignore_constraints_run", "property_output_fault", "max_params_exceeded",
          "dependency_missing", "one_of_both_hold", "discriminated_field_not_a_mapping"]


def generate(rng, tier):
    kind = rng.choice(["schema", "schema", "dataclass", "func"])
    pool = tdsl.PidPool()
    positions = []
    plan = {"prop": ID, "kind": kind, "max_errors": rng.choice([None, None, 1, 2, 3]),
            "opts_at": rng.choice(["class", "runtime"]), "dfs": rng.choice([None, True, False])}
    fields = []
    inp = {}
    RL = rng.random() < 0.6
    plan["ignore_constraints"] = rng.random() < 0.15
    plan["conflict"] = {}
    for i in range(rng.choice([1, 2, 3, 3, 4, 5])):
        r = rng.random()
        if r < 0.06 and kind != "func":
            # a field whose data class is chosen by a discriminator
            f = {"name": "f%d" % i, "type": ["disc"], "required": rng.random() < 0.6, "alias_from": [], "disc": True}
            fields.append(f)
            inp[f["name"]] = rng.choice([{"kind": "a", "n": 1}, {"kind": "b", "m": "2"}, {"kind": "a"}, 5, "zzz", [1, 2], {"kind": "c"}])
            continue
        if r < 0.5:
            t = tdsl.gen_scalar(rng, rule_leaves=RL, all_of=RL, one_of=RL)
        elif r < 0.9:
            t = tdsl.gen_container(rng, 1, rule_leaves=RL, all_of=RL)
        else:
            t = tdsl.gen_container(rng, 2, rule_leaves=RL, all_of=RL)
        required = rng.random() < 0.6
        f = {"name": "f%d" % i, "type": t, "required": required, "alias_from": ["a%d" % i] if rng.random() < 0.3 else []}
        fields.append(f)
        if required or rng.random() < 0.7:
            inp[f["name"]] = tdsl.gen_value(rng, t, pool, positions, (f["name"],))
            if f["alias_from"] and rng.random() < 0.5:
                # structural fault: the same field once more under its other spelling, with another value
                plan["conflict"][f["name"]] = tdsl.gen_value(rng, t, pool, positions, (f["name"] + "'",))
    # dependencies: some fields demand that an optional plain field is given as well
    opt_names = [f["name"] for f in fields if not f["required"] and not f.get("disc")]
    any_names = [f["name"] for f in fields if not f.get("disc")]
    for f in fields:
        if opt_names and rng.random() < 0.2:
            # (one time in four the field it depends on may be a required one)
            d = rng.choice(any_names if rng.random() < 0.25 else opt_names)
            if d != f["name"]:
                f["deps"] = [d]
    plan["fields"] = fields
    plan["addition"] = rng.choice([None, False, False, "leaf"])
    if RL and rng.random() < 0.5:
        plan["addition_rule"] = True      # the type of the additional items is a constrained (Rule) leaf: converted through Rule.parse
    plan["drop"] = []
    for f in fields:
        if f["required"] and rng.random() < 0.2:
            plan["drop"].append(f["name"])
            inp.pop(f["name"], None)
            plan["conflict"].pop(f["name"], None)
    plan["excess"] = {}
    for j in range(rng.choice([0, 0, 1, 2])):
        plan["excess"]["x%d" % j] = tdsl.gen_value(rng, ["leaf"], pool, positions, ("x%d" % j,))
    plan["input"] = inp
    if kind != "func" and rng.random() < 0.2:
        plan["max_params"] = rng.choice([1, 2, 3, 4])
    if kind == "schema" and rng.random() < 0.25:
        # a typed @property: its value is computed from a payload and converted to the declared type after the fields
        pt = tdsl.gen_scalar(rng, rule_leaves=RL)
        plan["pprop"] = {"type": pt, "value": tdsl.gen_value(rng, pt, pool, positions, ("pr",)), "hook": rng.random() < 0.5, "second": rng.random() < 0.4}
        if rng.random() < 0.4:
            pt3 = tdsl.gen_scalar(rng, rule_leaves=RL)
            plan["pprop"]["third"] = {"type": pt3, "value": tdsl.gen_value(rng, pt3, pool, positions, ("pr3",))}
            if rng.random() < 0.6:
                pt4 = tdsl.gen_scalar(rng, rule_leaves=RL)
                plan["pprop"]["fourth"] = {"type": pt4, "value": tdsl.gen_value(rng, pt4, pool, positions, ("pr4",))}
                if rng.random() < 0.5:
                    plan["max_errors"] = 2      # (three outputs that may fail and a cap below that)
                    plan["pprop"]["all_fail"] = rng.random() < 0.6
    if kind != "func" and not plan.get("pprop") and plan["addition"] != "leaf" and rng.random() < 0.25 \
            and '"dict"' not in kernel.jdump([f["type"] for f in fields]):
        # (the policy also applies to the values of mappings nested in a field: such types are left out here)
        # Options(invalid_values='exclude'): a field that is not required and does not parse is left out (no error); a
        # required one is still refused and reported
        plan["exclude"] = True
        reqs = [f for f in fields if f["required"] and not f.get("disc") and f["name"] in inp]
        others = [f for f in fields if f["name"] in inp and not f.get("deps")]
        if reqs and len(others) > 1 and rng.random() < 0.6:
            # ... and a field that depends on a required one: refused is not the same as left out
            d = rng.choice(reqs)
            f = rng.choice([x for x in others if x is not d])
            f["deps"] = [d["name"]]
    if kind == "func":
        plan["addition"] = rng.choice([None, "leaf"])   # **kwargs: Leaf or none
        # the type of the surplus positional values: a harness leaf or a constrained (Rule) leaf
        plan["argtype"] = ["rleaf"] if RL and rng.random() < 0.5 else ["leaf"]
        plan["args"] = [tdsl.gen_value(rng, plan["argtype"], pool, positions, ("*", i)) for i in range(rng.choice([0, 0, 1, 2, 3]))]
        if plan["args"]:
            # varargs require every named parameter to be passed positionally
            plan["drop"] = []
            plan["conflict"] = {}
            for f in fields:
                if f["name"] not in inp:
                    inp[f["name"]] = tdsl.gen_value(rng, f["type"], pool, positions, (f["name"],))
        if plan["addition"] is None:
            plan["excess"] = {}
        plan["opts_at"] = "class"
        if not plan["args"] and rng.random() < 0.35:
            # the first k parameters are positional-only: given by position up to the first one that is left out
            plan["posonly"] = rng.randint(1, len(fields))
            plan["conflict"] = {}
            plan["input"] = inp
            _posonly_consistent(plan)
    fl = {}
    if positions:
        p = rng.choice([0.1, 0.25, 0.5])
        for path, lk, pid in positions:
            if rng.random() < p:
                fl[str(faults.fault_id(faults.LEAF_TYPES[lk], pid))] = rng.choice(faults.EXC_NAMES)
    if (plan.get("pprop") or {}).get("all_fail"):
        # every input item is fine and every typed output fails: more failing items than the cap allows
        fl = {}
        for path, lk, pid in positions:
            if path and path[0] in ("pr", "pr3", "pr4"):
                fl[str(faults.fault_id(faults.LEAF_TYPES[lk], pid))] = rng.choice(faults.EXC_NAMES)
        plan["drop"], plan["conflict"] = [], {}
    plan["faults"] = {"leaf": fl}
    return plan


def build(plan, collect, faulted=True):
    import utype
    from utype import Schema, DataClass, Field, Options
    okw = {}
    if collect:
        okw["collect_errors"] = True
        if plan["max_errors"]:
            okw["max_errors"] = plan["max_errors"]
    if plan.get("dfs") is not None:
        okw["data_first_search"] = plan["dfs"]
    if plan.get("ignore_constraints"):
        okw["ignore_constraints"] = True
    if plan.get("exclude"):
        okw["invalid_values"] = "exclude"
    if plan.get("max_params"):
        okw["max_params"] = plan["max_params"]
    kind = plan["kind"]
    if kind in ("schema", "dataclass"):
        add = plan["addition"]
        if add is not None:
            okw["addition"] = (faults.rule_leaves()["rleaf"] if plan.get("addition_rule") else faults.Leaf) if add == "leaf" else add
        ns = {"__annotations__": {}, "__module__": "verif_c10", "__qualname__": "M"}
        for f in plan["fields"]:
            ns["__annotations__"][f["name"]] = _build_type(f["type"])
            fkw = {}
            if f.get("disc"):
                fkw["discriminator"] = "kind"
            if f.get("deps"):
                fkw["dependencies"] = list(f["deps"])
            if not f["required"]:
                fkw["required"] = False
            if f.get("alias_from"):
                fkw["alias_from"] = list(f["alias_from"])
            if fkw:
                ns[f["name"]] = Field(**fkw)
        if plan.get("pprop"):
            PT = tdsl.build_type(plan["pprop"]["type"])
            pv = plan["pprop"]["value"]

            def pr(self) -> PT:
                return tdsl.build_value(pv)
            pr.__annotations__ = {"return": PT}
            ns["pr"] = property(pr)
            if plan["pprop"].get("second"):
                # a second property, declared to throw, whose getter reads the first one: it is fine whenever pr is
                from utype import Field as _F

                def pr2(self) -> int:
                    self.pr
                    return 1
                pr2.__annotations__ = {"return": int}
                ns["pr2"] = property(_F(on_error="throw")(pr2))
            if plan["pprop"].get("third"):
                # a further typed property of its own: a failing item like any other
                PT3 = tdsl.build_type(plan["pprop"]["third"]["type"])
                pv3 = plan["pprop"]["third"]["value"]

                def pr3(self) -> PT3:
                    return tdsl.build_value(pv3)
                pr3.__annotations__ = {"return": PT3}
                ns["pr3"] = property(pr3)
            if plan["pprop"].get("fourth"):
                PT4 = tdsl.build_type(plan["pprop"]["fourth"]["type"])
                pv4 = plan["pprop"]["fourth"]["value"]

                def pr4(self) -> PT4:
                    return tdsl.build_value(pv4)
                pr4.__annotations__ = {"return": PT4}
                ns["pr4"] = property(pr4)
            if plan["pprop"].get("hook"):
                # the user's __validate__ reads the property: it only ever runs on an instance that parsed
                def __validate__(self):
                    getattr(self, "pr", None)
                ns["__validate__"] = __validate__
        opts = Options(**okw)
        at_class = plan["opts_at"] == "class"
        # addition is a declaration-level setting (typed addition is resolved by the class parser)
        ns["__options__"] = opts if at_class else Options(**({"addition": okw["addition"]} if "addition" in okw else {}))
        cls = type("M", (Schema if kind == "schema" else DataClass,), ns)
        if at_class:
            return lambda v, a: cls(**v)
        return lambda v, a: cls.__from__(v, options=opts)
    # function: parameters in field order (required first as python demands), *args, optional **kwargs
    order = func_order(plan)
    params = []
    env = {"Leaf": faults.Leaf, "__name__": "verif_c10"}
    for f in order:
        env["T_" + f["name"]] = _build_type(f["type"])
        if f.get("deps"):
            pk = {"dependencies": list(f["deps"])}
            if f.get("alias_from"):
                pk["alias_from"] = list(f["alias_from"])
            env["P_" + f["name"]] = utype.Param(**pk) if f["required"] else utype.Param(None, **pk)
            params.append(f"{f['name']}: T_{f['name']} = P_{f['name']}")
        elif f.get("alias_from"):
            env["P_" + f["name"]] = utype.Param(alias_from=list(f["alias_from"])) if f["required"] else utype.Param(None, alias_from=list(f["alias_from"]))
            params.append(f"{f['name']}: T_{f['name']} = P_{f['name']}")
        else:
            params.append(f"{f['name']}: T_{f['name']}" + ("" if f["required"] else " = None"))
    if plan.get("posonly"):
        params.insert(min(plan["posonly"], len(params)), "/")
    env["T_args"] = tdsl.build_type(plan.get("argtype") or ["leaf"])
    params.append("*args: T_args")
    if plan["addition"] == "leaf":
        env["T_kw"] = faults.rule_leaves()["rleaf"] if plan.get("addition_rule") else faults.Leaf
        params.append("**kwargs: T_kw")
    src = "def f(%s):\n    return dict(locals())\n" % ", ".join(params)
    exec(src, env)
    g = utype.parse(env["f"], options=Options(**okw), no_cache=True)
    names = [f["name"] for f in order]

    def call(v, a):
        if a:
            pos = [v[n] for n in names] + list(a)
            kw = {k: x for k, x in v.items() if k not in names}
            return g(*pos, **kw)
        if plan.get("posonly"):
            pos = []
            for n in names[:plan["posonly"]]:
                if n not in v:
                    break
                pos.append(v[n])
            given = set(names[:len(pos)])
            return g(*pos, **{k: x for k, x in v.items() if k not in given and k not in names[:plan["posonly"]]})
        return g(**v)
    return call


_DISC = {}


def _build_type(t):
    if t[0] != "disc":
        return tdsl.build_type(t)
    if not _DISC:
        import typing
        from utype import Schema
        try:
            from typing import Literal
        except ImportError:  # pragma: no cover
            from typing_extensions import Literal
        A = type("DA", (Schema,), {"__annotations__": {"kind": Literal["a"], "n": int}, "kind": "a", "n": 0, "__module__": "verif_c10", "__qualname__": "DA"})
        B = type("DB", (Schema,), {"__annotations__": {"kind": Literal["b"], "m": int}, "kind": "b", "m": 0, "__module__": "verif_c10", "__qualname__": "DB"})
        _DISC["t"] = typing.Union[A, B]
    return _DISC["t"]


def func_order(plan):
    # python's rule: parameters written with "= something" come last; an aliased required parameter is written "= Param(...)"
    req_plain = [f for f in plan["fields"] if f["required"] and not f.get("alias_from") and not f.get("deps")]
    req_alias = [f for f in plan["fields"] if f["required"] and (f.get("alias_from") or f.get("deps"))]
    return req_plain + req_alias + [f for f in plan["fields"] if not f["required"]]


_XOPTS = {}
OPTIONAL = set()     # report entries that may or may not appear (see ground_truth)


def _item_fails(t, v):
    import utype
    try:
        T = utype.Rule.parse_annotation(annotation=_build_type(t)) if t[0] == "disc" else tdsl.rule_type(t)
        utype.type_transform(v, T, options=utype.Options(**_XOPTS))
        return False
    except Exception:  # noqa
        return True


def ground_truth(plan, stats):
    """G: names of failing top-level items, computed from the injected faults."""
    G = set()
    value = tdsl.build_value(plan["input"])
    ftypes = {f["name"]: f for f in plan["fields"]}
    EXCL = set()     # under invalid_values='exclude': fields that are not required and do not parse are left out, not reported
    for name, v in value.items():
        if _item_fails(ftypes[name]["type"], v):
            if plan.get("exclude") and not ftypes[name]["required"]:
                EXCL.add(name)
            else:
                G.add(name)
    for f in plan["fields"]:
        if f.get("disc") and f["name"] in value and not isinstance(value[f["name"]], dict):
            stats["probe:discriminated_field_not_a_mapping"] += 1
        if f["type"][0] == "xor" and f["name"] in G and not any(_item_fails(b, value[f["name"]]) for b in f["type"][1:]):
            stats["probe:one_of_both_hold"] += 1       # (it fails because both conditions hold, not because neither does)
    for name, vx in (plan.get("conflict") or {}).items():
        # two spellings with different values: the item is rejected whatever the values are
        if name in value and tdsl.build_value(vx) != value[name]:
            G.add(name)
            EXCL.discard(name)      # (reported as a conflict: none of its values is looked at, so it is not "left out")
            stats["probe:alias_conflict"] += 1
    for f in plan["fields"]:
        if f["required"] and f["name"] not in plan["input"]:
            G.add(f["name"])
            stats["probe:dropped_required"] += 1
    add = plan["addition"]
    for k, vx in plan["excess"].items():
        if add is False:
            G.add(k)
            stats["probe:excess_key"] += 1
        elif add == "leaf":
            if _item_fails(["leaf"], tdsl.build_value(vx)):
                G.add(k)
    if plan.get("max_params"):
        n_given = len(value) + len(plan["excess"]) + sum(1 for n in (plan.get("conflict") or {}) if n in value)
        if n_given > plan["max_params"]:
            G.add("<max_params>")
            stats["probe:max_params_exceeded"] += 1
    for i, a in enumerate(plan.get("args", [])):
        if _item_fails(plan.get("argtype") or ["leaf"], tdsl.build_value(a)):
            G.add("*%d" % i)
            stats["probe:varargs_fault"] += 1
    # a field that is given and fine demands its dependencies (an invalid one is reported itself and demands nothing)
    OPTIONAL.clear()
    conflicted = {n for n in (plan.get("conflict") or {}) if n in G}
    for f in plan["fields"]:
        if not (f.get("deps") and f["name"] in value):
            continue
        own_value_fails = _item_fails(f["type"], value[f["name"]])
        if own_value_fails:
            continue        # reported itself, demands nothing
        lacking = any(d not in value or d in G for d in f["deps"])
        if f["name"] in conflicted:
            # two spellings that disagree: reported as a conflict; the parser goes on with the first value, so the
            # dependant may or may not complain as well
            if lacking:
                OPTIONAL.add("<deps>")
            continue
        if f["name"] not in G:
            if any(d not in value or d in EXCL for d in f["deps"]):
                # (a dependency that was left out by the 'exclude' policy counts as not given)
                G.add("<deps>")
                stats["probe:dependency_missing"] += 1
            # (a dependency that is given but invalid is reported itself: it is not absent, the dependant has nothing to add)
    # a property is computed from the parsed fields, so it can only fail (and be reported) when every input item is fine
    if not G and plan.get("pprop") and _item_fails(plan["pprop"]["type"], tdsl.build_value(plan["pprop"]["value"])):
        G.add("pr")
        stats["probe:property_output_fault"] += 1
    if not (G - {"pr"}) and plan.get("pprop") and plan["pprop"].get("third") and _item_fails(plan["pprop"]["third"]["type"], tdsl.build_value(plan["pprop"]["third"]["value"])):
        # (fail-fast stops at the first failing output; collecting names both)
        G.add("pr3")
    if not (G - {"pr", "pr3"}) and plan.get("pprop") and plan["pprop"].get("fourth") and _item_fails(plan["pprop"]["fourth"]["type"], tdsl.build_value(plan["pprop"]["fourth"]["value"])):
        G.add("pr4")
    return G


def _norm_item(plan, item):
    if isinstance(item, str):
        if item.startswith("**") and ":" in item:
            return item.split(":", 1)[1]
        if item.startswith("*") and ":" in item:
            idx = int(item.split(":", 1)[1])
            return "*%d" % (idx - len(plan["fields"]))
    return item


def _observe(plan, r):
    if plan["kind"] == "dataclass":
        return {k: v for k, v in r.__dict__.items() if k != "__context__"}
    if plan["kind"] == "schema":
        return dict(r)
    return r


def _canon(x):
    return kernel.canon_mapping_unordered(kernel.canon(x))


def _run(plan, collect):
    from utype.utils.exceptions import ParseError, CollectedParseError
    call = build(plan, collect)
    value = tdsl.build_value(plan["input"])
    value.update({k: tdsl.build_value(v) for k, v in plan["excess"].items()})
    for name, vx in (plan.get("conflict") or {}).items():
        alias = [f for f in plan["fields"] if f["name"] == name][0]["alias_from"][0]
        value[alias] = tdsl.build_value(vx)
    args = [tdsl.build_value(a) for a in plan.get("args", [])]
    try:
        return ("ok", _canon(_observe(plan, call(value, args))))
    except CollectedParseError as e:
        items = []
        kinds = []
        for err in e.errors:
            it = _norm_item(plan, getattr(err, "item", None))
            if type(err).__name__ in ("ParamsExceedError", "ParamsLackError"):
                it = "<max_params>"
            if type(err).__name__ == "DependenciesAbsenceError":
                it = "<deps>"
            items.append(it)
            kinds.append([type(err).__name__, str(items[-1])])
        return ("collected", items, len(e.errors), kinds)
    except ParseError as e:
        if type(e).__name__ in ("ParamsExceedError", "ParamsLackError"):
            return ("ParseError", "<max_params>")
        if type(e).__name__ == "DependenciesAbsenceError":
            return ("ParseError", "<deps>")
        return ("ParseError", _norm_item(plan, getattr(e, "item", None)))
    except Exception as e:  # noqa
        return ("raw", type(e).__name__, kernel.clean_text(e, 120))


def _posonly_consistent(plan):
    """What comes after a left-out positional-only parameter cannot be given either (also after shrinking)."""
    if not plan.get("posonly"):
        return plan
    gone = False
    for f in func_order(plan)[:plan["posonly"]]:
        if gone and f["name"] in plan["input"]:
            plan["input"].pop(f["name"])
            if f["required"] and f["name"] not in plan["drop"]:
                plan["drop"].append(f["name"])
        gone = gone or f["name"] not in plan["input"]
    # (whether a positional-only parameter that took its default satisfies a dependency, and that a parameter passed by
    # position does not demand its dependencies at all, is not this property's matter: both modes agree on it)
    po = {f["name"] for f in func_order(plan)[:plan["posonly"]]}
    for f in plan["fields"]:
        if f.get("deps") and (set(f["deps"]) & po or f["name"] in po):
            f.pop("deps")
    return plan


def execute(plan):
    res = RunResult()
    kernel.reset_world()
    faults.register_leaves()
    kernel.make_module("verif_c10")
    plan = _posonly_consistent(copy.deepcopy(plan))

    # fault-free control (no leaf faults, no structural faults): both modes accept, equal values
    ctl = copy.deepcopy(plan)
    ctl["faults"] = {"leaf": {}}
    if plan["addition"] is False:
        ctl["excess"] = {}
    pool = tdsl.PidPool(5000)
    for f in plan["fields"]:
        if f["required"] and f["name"] not in ctl["input"]:
            # restore dropped keys with fresh payloads
            import random
            ctl["input"][f["name"]] = {"kind": "a", "n": 1} if f.get("disc") else tdsl.gen_value(random.Random(1), f["type"], pool, [], ())
    ctl["drop"] = []
    ctl["conflict"] = {}
    ctl.pop("max_params", None)
    faults.reset()
    _XOPTS.clear()
    if plan.get("ignore_constraints"):
        _XOPTS["ignore_constraints"] = True
    G0 = ground_truth(ctl, __import__("collections").Counter())
    c1, c2 = _run(ctl, False), _run(ctl, True)
    if G0:
        # even without faults some items fail by construction (both conditions of a '^' hold, a value that is no mapping
        # for a discriminated class, a dependency left out): both modes must reject
        if c1[0] == "ok" or c2[0] == "ok":
            res.violate(f"C10|{plan['kind']}|1:control_accepts_failing_input|-|-", f"no injected fault, failing items {sorted(G0)}: fail-fast {c1[0]}, collecting {c2[0]}")
            return res
    elif (c1[0] == "ok") != (c2[0] == "ok") or (c1[0] == "ok" and c1 != c2):
        # no fault injected, nothing fails on its own, and the two modes still disagree: clause 1/2 outright
        res.violate(f"C10|{plan['kind']}|1:modes_disagree_without_faults|-|-", f"no injected fault: fail-fast {c1} but collecting {c2}")
        return res
    elif c1[0] != "ok":
        raise kernel.HarnessError(f"C10 control: fail-fast {c1} collecting {c2} plan={kernel.jdump(ctl)}")
    res.ev("control", "ok")

    faults.reset()
    faults.set_plan(plan["faults"])
    _XOPTS.clear()
    if plan.get("ignore_constraints"):
        _XOPTS["ignore_constraints"] = True
    G = ground_truth(plan, res.stats)
    faults.STATE.fired.clear()
    ff = _run(plan, False)
    co = _run(plan, True)
    fired = faults.STATE.fired.get("leaf_fail", 0)
    res.stats["fault:leaf_fail"] += fired
    res.stats["fault:struct_drop"] += sum(1 for f in plan["fields"] if f["required"] and f["name"] not in plan["input"])
    res.stats["fault:struct_excess"] += len(plan["excess"]) if plan["addition"] is False else 0
    res.ev("G", sorted(G), "failfast", ff, "collect", co, "max_errors", plan["max_errors"])

    me = "max" if plan["max_errors"] else "nomax"
    path_kind = _path_kind(plan, G)
    if ff[0] == "raw" or co[0] == "raw":
        w = ff if ff[0] == "raw" else co
        res.violate(f"C10|{plan['kind']}|raw:{w[1]}|{path_kind}|{me}", f"raw exception {w[1]}: {w[2]}")
        return res
    # clause 1: verdicts agree with each other and with G
    ff_ok, co_ok = ff[0] == "ok", co[0] == "ok"
    if ff_ok != co_ok:
        res.violate(f"C10|{plan['kind']}|1:verdict_differs|{path_kind}|{me}",
                    f"fail-fast {'accepts' if ff_ok else 'rejects'} but collecting {'accepts' if co_ok else 'rejects'}; G={sorted(G)} ff={ff} co={co}")
    elif ff_ok != (not G):
        res.violate(f"C10|{plan['kind']}|1:verdict_vs_faults|{path_kind}|{me}",
                    f"both modes {'accept' if ff_ok else 'reject'} but injected failing items are {sorted(G)}")
    elif ff_ok:
        if ff[1] != co[1]:
            res.violate(f"C10|{plan['kind']}|2:value_differs|{path_kind}|{me}", f"fail-fast value {ff[1]} != collecting value {co[1]}")
    else:
        if co[0] != "collected":
            res.violate(f"C10|{plan['kind']}|3:not_one_collected_error|{path_kind}|{me}", f"collecting mode raised {co}")
        else:
            names = set(co[1])
            dropped = {f["name"] for f in plan["fields"] if f["required"] and f["name"] not in plan["input"]}
            for cls_name, item in co[3]:
                # the kind of a reported error must fit what was done to that item: a present item is not "absent",
                # a declared field is not an "exceeding key"
                if cls_name == "AbsenceError" and item not in dropped:
                    res.violate(f"C10|{plan['kind']}|3:present_item_reported_absent|{path_kind}|{me}",
                                f"AbsenceError for {item!r}, which is present in the input; reported {co[3]}")
                if cls_name == "ExceedError" and item not in plan["excess"]:
                    res.violate(f"C10|{plan['kind']}|3:field_reported_exceeding|{path_kind}|{me}",
                                f"ExceedError for {item!r}, which is a declared field; reported {co[3]}")
            seen_pairs = set()
            seen_items = set()
            for cls_name, item in co[3]:
                if item is not None and item in seen_items and (cls_name, item) not in seen_pairs:
                    # one failing item, one entry - whatever the classes of the errors (a duplicate also uses up max_errors)
                    res.violate(f"C10|{plan['kind']}|3:item_reported_twice|{path_kind}|{me}",
                                f"{item!r} is reported more than once, under different error classes: {co[3]}")
                    break
                if item is not None:
                    seen_items.add(item)
                if item is not None and cls_name in ("ParseError", "AliasConflictError") and \
                        {("ParseError", item), ("AliasConflictError", item)} & seen_pairs - {(cls_name, item)}:
                    # two spellings that disagree: the item is reported as a conflict, and not once more for one of its values
                    res.violate(f"C10|{plan['kind']}|3:item_reported_twice|{path_kind}|{me}",
                                f"{item!r} is reported as a conflict of its spellings and once more for its value: {co[3]}")
                    break
                if (cls_name, item) in seen_pairs and item is not None:
                    # "names exactly the failing items": one entry per failure (a duplicate also uses up max_errors)
                    res.violate(f"C10|{plan['kind']}|3:item_reported_twice|{path_kind}|{me}",
                                f"{cls_name} for {item!r} is reported more than once: {co[3]}")
                    break
                seen_pairs.add((cls_name, item))
            names = names - (OPTIONAL - G)
            if not names <= G:
                res.violate(f"C10|{plan['kind']}|3:valid_item_reported|{path_kind}|{me}",
                            f"reported {sorted(map(str, names))} but failing items are {sorted(G)}")
            elif plan["max_errors"]:
                if co[2] > plan["max_errors"] or not names:
                    res.violate(f"C10|{plan['kind']}|3:max_errors|{path_kind}|{me}",
                                f"{co[2]} errors reported with max_errors={plan['max_errors']}")
                if len(G) > plan["max_errors"]:
                    res.stats["probe:max_errors_cut"] += 1
            elif names != G:
                res.violate(f"C10|{plan['kind']}|3:failing_item_missing|{path_kind}|{me}",
                            f"reported {sorted(map(str, names))} but failing items are {sorted(G)}")
        if ff[0] == "ParseError" and ff[1] is not None and ff[1] not in G:
            res.violate(f"C10|{plan['kind']}|ff:valid_item_blamed|{path_kind}|{me}", f"fail-fast error names {ff[1]!r}, failing items are {sorted(G)}")

    if (fired or "absent" in path_kind or (plan["excess"] and plan["addition"] is False)) and (len(G) >= 2 or "nested" in path_kind):
        res.nontrivial = kernel.digest_of([plan["kind"], [(f["type"], f["required"]) for f in plan["fields"]],
                                           plan["addition"], sorted(G), plan["max_errors"], plan["dfs"],
                                           sorted(plan["faults"]["leaf"].values())])
    if plan.get("ignore_constraints"):
        res.stats["probe:ignore_constraints_run"] += 1
    if fired and '"and"' in kernel.jdump([f["type"] for f in plan["fields"]]):
        res.stats["probe:all_of_type_fault"] += 1
    if "nested" in path_kind:
        res.stats["probe:nested_fault"] += 1
    if "union" in path_kind:
        res.stats["probe:union_all_branches_fail"] += 1
    return res


def _path_kind(plan, G):
    kinds = set()
    ft = {f["name"]: f["type"] for f in plan["fields"]}
    for g in G:
        t = ft.get(g)
        if t is None:
            kinds.add("extra" if not str(g).startswith("*") else "varargs")
        elif tdsl.is_scalar(t):
            kinds.add("union" if t[0] in ("union", "xor") else "scalar")
        else:
            kinds.add("nested:" + t[0])
    for f in plan["fields"]:
        if f["required"] and f["name"] not in plan["input"]:
            kinds.add("absent")
    return ",".join(sorted(kinds)) or "-"


def shrink(plan):
    from props.c11 import _shrink_value
    for k in list(plan["faults"]["leaf"]):
        p = copy.deepcopy(plan)
        p["faults"]["leaf"].pop(k)
        yield p
    for k, name in plan["faults"]["leaf"].items():
        if name != "ValueError":
            p = copy.deepcopy(plan)
            p["faults"]["leaf"][k] = "ValueError"
            yield p
    for k in list(plan["excess"]):
        p = copy.deepcopy(plan)
        p["excess"].pop(k)
        yield p
    for i in range(len(plan.get("args", []))):
        p = copy.deepcopy(plan)
        p["args"].pop(i)
        yield p
    for i, f in enumerate(plan["fields"]):
        if len(plan["fields"]) > 1:
            p = copy.deepcopy(plan)
            p["fields"].pop(i)
            p["input"].pop(f["name"], None)
            if f["name"] in p["drop"]:
                p["drop"].remove(f["name"])
            yield p
    if plan["max_errors"]:
        p = copy.deepcopy(plan)
        p["max_errors"] = None
        yield p
    if plan["dfs"] is not None:
        p = copy.deepcopy(plan)
        p["dfs"] = None
        yield p
    for name in list(plan["input"]):
        for y in _shrink_value(plan["input"][name]):
            p = copy.deepcopy(plan)
            p["input"][name] = y
            yield p
