"""C06 -- the result does not depend on the field-lookup strategy (tuning-knob flip).

Two replicas of the same world, one per value of `data_first_search`, are driven by the same plan
(input keys over names / aliases / case variants / extras, leaf faults, structural faults, policies) in
fail-fast and in collecting mode; their observable histories must agree.
"""
import copy

from sim import kernel, faults, tdsl
from sim.runner import RunResult

ID = "C06"
RULE = ("plan = (schema/dataclass/function declaration with aliases, alias_from, case-insensitivity, defaults, factories, "
        "required, dependencies, no_input, mode, per-field on_error; class options addition/ignore_required/"
        "ignore_alias_conflicts/min,max_params/no_default/force_default/invalid_values/mode; input key set incl. "
        "same field under two spellings, case variants, extras; leaf faults); each plan runs on both knob values, set at "
        "class level or at run time, fail-fast and collecting; non-trivial = reaches >=1 of alias hit, case-folded hit, "
        "default taken, required missing, dependency missing, unknown key, faulted leaf, alias conflict; distinct by "
        "(declaration digest, key-shape digest, fault digest)")
ASSUMPTIONS = [
    "failure of the same kind: with collect_errors the multisets of (error class, item) agree; fail-fast with exactly one reported error: same class; with >=2 failing items the first (class, item) reported agrees too (both strategies go by the order of declaration, additional items last)",
    "result mappings are compared unordered; warnings are not compared",
    "declarations the library refuses at class-creation time are refused identically for both knob values and are skipped",
]
COMPONENTS = {
    "real": ["BaseParser.parse_data/data_first_parse/field_first_parse/parse_addition", "ParserField", "ClassParser", "FunctionParser.parse_params",
             "Options/RuntimeContext", "Schema/DataClass"],
    "stub": ["leaf converter (fault site)", "payload objects"],
}
TIERS = {
    "quick": {"runs": 24000, "chunk": 100, "selftest": 64, "minimise_s": 30},
    "thorough": {"budget_s": 600, "chunk": 400, "selftest": 512, "minimise_s": 90},
}
PROBES = ["alias_hit", "case_fold_hit", "default_taken", "required_missing", "dependency_missing", "unknown_key",
          "alias_conflict", "faulted_leaf", "runtime_knob", "inherited_field_redeclared", "options_only_at_runtime",
          "earlier_calls_other_options", "alias_named_like_method"]


def generate(rng, tier):
    kind = rng.choice(["schema", "schema", "dataclass", "func"])
    plan = {"prop": ID, "kind": kind, "knob_at": rng.choice(["class", "runtime"])}
    nf = rng.choice([1, 2, 3, 3, 4])
    fields = []
    for i in range(nf):
        f = {"name": "f%d" % i, "alias": None, "alias_from": [], "ci": None, "required": True, "default": None,
             "deps": [], "no_input": False, "mode": None, "on_error": None, "type": rng.choice([["leaf"], ["leaf"], ["list", ["leaf"]], ["opt", ["leaf"]]])}
        if rng.random() < 0.3:
            f["alias"] = "A%d" % i
        if rng.random() < 0.35:
            f["alias_from"] = ["a%d_%d" % (i, j) for j in range(rng.choice([1, 2]))]
        if rng.random() < 0.25:
            f["ci"] = True
        if rng.random() < 0.5:
            f["required"] = False
            f["default"] = rng.choice(["absent", "none", "factory", "leaf"])
        if i > 0 and rng.random() < 0.25:
            f["deps"] = ["f%d" % rng.randrange(i)]
        if rng.random() < 0.1 and not f["required"]:
            f["no_input"] = True
        if rng.random() < 0.15:
            f["mode"] = rng.choice(["r", "w", "rw"])
        if rng.random() < 0.2:
            f["on_error"] = rng.choice(["exclude", "preserve", "throw"])
            if f["required"] and f["on_error"] == "exclude":
                f["on_error"] = "preserve"
        fields.append(f)
    plan["fields"] = fields
    o = {}
    if rng.random() < 0.6:
        o["addition"] = rng.choice([True, False, "leaf"])
    for k, p in (("ignore_required", 0.2), ("ignore_alias_conflicts", 0.2), ("no_default", 0.1), ("case_insensitive", 0.15)):
        if rng.random() < p:
            o[k] = True
    if rng.random() < 0.1 and "no_default" not in o:
        o["force_default"] = "FD"
    if rng.random() < 0.15:
        o["max_params"] = rng.choice([1, 2, 3])
    if rng.random() < 0.15:
        o["min_params"] = rng.choice([1, 2, 3])
    if rng.random() < 0.3:
        o["invalid_values"] = rng.choice(["exclude", "preserve"])
    if rng.random() < 0.2:
        o["mode"] = rng.choice(["r", "w"])
    if kind == "func":
        o.pop("no_default", None)
        o.pop("mode", None)
        if o.get("addition") in (True, False):
            o.pop("addition")
        if "addition" not in o and rng.random() < 0.4:
            # an un-annotated **kwargs; Options(override=True) makes the user's options win over the implied
            # addition=True, i.e. the surplus keywords are ignored
            plan["untyped_kwargs"] = True
            if rng.random() < 0.5:
                o["override"] = True
        for f in fields:
            f["mode"] = None
            f["no_input"] = False
            if not f["required"] and f["default"] == "absent":
                f["default"] = "none"
    plan["options"] = o
    if kind in ("schema", "dataclass") and rng.random() < 0.15:
        # one field's input alias is spelled like a class attribute that is not a field (a method of the class)
        f = rng.choice(fields)
        f["alias_from"] = list(f["alias_from"]) + ["helper"]
        plan["helper_method"] = True
    if kind in ("schema", "dataclass") and rng.random() < 0.25:
        # earlier parses of the same declaration under other run-time options (the strategies must not remember them)
        plan["pre_calls"] = [{"ignore_required": rng.random() < 0.6, "mode": rng.choice([None, None, "r", "w"])}
                             for _ in range(rng.choice([1, 2]))]
    plan["sub"] = {}
    if kind in ("schema", "dataclass") and rng.random() < 0.25:
        # the fields are declared in a base class; the class under test re-declares some of them without their
        # aliases, or drops them -- the input may still use the spellings of the base class
        for f in fields:
            if (f["alias"] or f["alias_from"]) and rng.random() < 0.6 and not any(f["name"] in g["deps"] for g in fields):
                plan["sub"][f["name"]] = rng.choice(["plain", "plain", "drop"])
    if plan["knob_at"] == "runtime" and kind in ("schema", "dataclass") and rng.random() < 0.4:
        # every option comes with the call, the class itself declares none
        plan["runtime_only"] = True
        if o.get("addition") == "leaf":
            o["addition"] = rng.choice([True, False])
    # input: for each field choose which spellings are present
    pool = tdsl.PidPool()
    positions = []
    keys = []   # [key, vexpr]
    for f in fields:
        spell = [f["alias"] or f["name"]] + f["alias_from"] + ([f["name"]] if f["alias"] else [])
        r = rng.random()
        if r < 0.2:
            continue
        v = tdsl.gen_value(rng, f["type"], pool, positions, (f["name"],))
        k = rng.choice(spell)
        if (f["ci"] or o.get("case_insensitive")) and rng.random() < 0.5:
            k = k.upper() if rng.random() < 0.5 else k.capitalize()
        keys.append([k, v])
        if rng.random() < 0.2 and len(spell) > 1:
            k2 = rng.choice([s for s in spell if s != k] or spell)
            v2 = v if rng.random() < 0.5 else tdsl.gen_value(rng, f["type"], pool, positions, (f["name"],))
            keys.append([k2, v2])
    for j in range(rng.choice([0, 0, 1, 2])):
        keys.append(["x%d" % j, tdsl.gen_value(rng, ["leaf"], pool, positions, ("x",))])
    if kind in ("schema", "dataclass") and rng.random() < 0.12 and not any(k in ("kz", "tot") for k, _ in keys):
        # a property whose setter reads a field declared before it: the order in which the parsed items are handed
        # to the instance must not depend on the strategy
        plan["psetter"] = True
        keys += [["kz", rng.choice([2, "3"])], ["tot", rng.choice([4, "5"])]]
    if keys and rng.random() < 0.05:
        # an item whose value is the library's own marker for "not provided" (it is exported): it means just that
        keys[rng.randrange(len(keys))][1] = {"$unprovided": 1}
    rng.shuffle(keys)
    plan["input"] = keys
    if kind in ("schema", "dataclass") and rng.random() < 0.15:
        # the data comes as one positional mapping whose keys are not all strings: Cls({...})
        plan["posmap"] = {"intkey": rng.choice([None, 1, 7]), "value": tdsl.gen_value(rng, ["leaf"], pool, positions, ("x",)),
                          # keys of a str subclass whose str() is not the key itself (class Key(str, Enum) style)
                          "strsub": rng.random() < 0.4}
    plan["positional"] = rng.choice([0, 0, 1, 2]) if kind == "func" else 0
    if kind == "func" and plan["options"].get("addition") == "leaf" and rng.random() < 0.3:
        # def f(p, /, ..., **kwargs: Leaf) called f(v, p=w): Python binds the keyword p into kwargs
        order_ = [f for f in fields if f["required"]] + [f for f in fields if not f["required"]]
        f0 = order_[0]
        if not f0["alias"] and not f0["alias_from"] and any(k == f0["name"] for k, _v in keys):
            plan["posonly_kw"] = {"name": f0["name"], "value": tdsl.gen_value(rng, ["leaf"], pool, positions, ("x",)),
                                  # (under case-insensitive options the keyword may come in another case)
                                  "upper": rng.random() < 0.5}
            plan["positional"] = max(1, plan["positional"])
    fl = {}
    for path, lk, pid in positions:
        if rng.random() < 0.15:
            fl[str(faults.fault_id(faults.LEAF_TYPES[lk], pid))] = rng.choice(["ValueError", "TypeError", "OSError", "KeyError"])
    plan["faults"] = {"leaf": fl}
    return plan


def _field_obj(f, param=False):
    from utype import Field, Param
    kw = {}
    if f["alias"]:
        kw["alias"] = f["alias"]
    if f["alias_from"]:
        kw["alias_from"] = list(f["alias_from"])
    if f["ci"]:
        kw["case_insensitive"] = True
    if not f["required"]:
        d = f["default"]
        if d == "absent":
            kw["required"] = False
        elif d == "none":
            kw["default"] = None
        elif d == "factory":
            kw["default_factory"] = list
        else:
            kw["default"] = faults.Leaf(7777)
    if f["deps"]:
        kw["dependencies"] = list(f["deps"])
    if f["no_input"]:
        kw["no_input"] = True
    if f["mode"]:
        kw["mode"] = f["mode"]
    if f["on_error"]:
        kw["on_error"] = f["on_error"]
    if param:
        kw.pop("required", None)
        return Param(**kw) if kw else None
    return Field(**kw) if kw else None


class KeyStr(str):
    """Equal to (and hashing like) the plain key; str() of it is something else, as for class Key(str, Enum)."""

    def __str__(self):
        return "KeyStr." + str.__str__(self)


def build(plan, dfs, collect):
    import utype
    from utype import Schema, DataClass, Options
    okw = dict(plan["options"])
    if okw.get("addition") == "leaf":
        okw["addition"] = faults.Leaf
    rt = {}
    if collect:
        rt["collect_errors"] = True
    if plan["knob_at"] == "class":
        okw["data_first_search"] = dfs
        okw.update(rt)
        runtime = None
    else:
        runtime = dict(okw)
        runtime["data_first_search"] = dfs
        runtime.update(rt)
    kind = plan["kind"]
    if kind in ("schema", "dataclass"):
        class_opts = Options(data_first_search=dfs) if plan.get("runtime_only") else Options(**okw)
        ns = {"__annotations__": {}, "__module__": "verif_c06", "__qualname__": "M", "__options__": class_opts}
        for f in plan["fields"]:
            ns["__annotations__"][f["name"]] = tdsl.build_type(f["type"])
            fo = _field_obj(f)
            if fo is not None:
                ns[f["name"]] = fo
        if plan.get("psetter"):
            ns["__annotations__"] = dict({"kz": int}, **ns["__annotations__"])
            ns["kz"] = 1

            def tot_get(self) -> int:
                return self.__dict__.get("_t", 0)

            def tot_set(self, v: int):
                self.__dict__["_t"] = v * self.kz
            tot_get.__annotations__ = {"return": int}
            tot_set.__annotations__ = {"v": int}
            ns["tot"] = property(tot_get, tot_set)
        if plan.get("helper_method"):
            def helper(self):
                return 1
            helper.__qualname__ = "M.helper"      # a method of the class, as the class parser recognises one
            helper.__module__ = "verif_c06"
            ns["helper"] = helper
        sub = plan.get("sub") or {}
        if sub:
            base = type("Base_", (Schema if kind == "schema" else DataClass,), dict(ns, __qualname__="Base_"))
            ns2 = {"__annotations__": {}, "__module__": "verif_c06", "__qualname__": "M", "__options__": class_opts}
            for f in plan["fields"]:
                how = sub.get(f["name"])
                if how == "drop":
                    ns2[f["name"]] = ...
                elif how == "plain":
                    ns2["__annotations__"][f["name"]] = tdsl.build_type(f["type"])
                    if not f["required"]:
                        ns2[f["name"]] = None
            cls = type("M", (base,), ns2)
        else:
            cls = type("M", (Schema if kind == "schema" else DataClass,), ns)
        pre = plan.get("pre_calls") or []

        def warm(kw):
            for pc in pre:
                base_kw = dict(runtime if runtime is not None else okw)
                base_kw["ignore_required"] = pc["ignore_required"]
                if pc["mode"] and "mode" not in base_kw:
                    base_kw["mode"] = pc["mode"]
                try:
                    cls.__from__(dict(kw), options=Options(**base_kw))
                except Exception:  # noqa  (what an earlier call returns is not compared)
                    pass
        if runtime is None and plan.get("posmap"):
            def as_mapping(kw):
                d = {KeyStr(k): v for k, v in kw.items()} if plan["posmap"].get("strsub") else dict(kw)
                if plan["posmap"]["intkey"] is not None:
                    d[plan["posmap"]["intkey"]] = tdsl.build_value(plan["posmap"]["value"])
                return d
            return lambda pos, kw: (warm(kw), cls(as_mapping(kw)))[1]
        if runtime is None:
            return lambda pos, kw: (warm(kw), cls(**kw))[1]
        ro = Options(**runtime)
        return lambda pos, kw: (warm(kw), cls.__from__(kw, options=ro))[1]
    env = {"__name__": "verif_c06"}
    params = []
    order = [f for f in plan["fields"] if f["required"]] + [f for f in plan["fields"] if not f["required"]]
    for f in order:
        env["T_" + f["name"]] = tdsl.build_type(f["type"])
        fo = _field_obj(f, param=True)
        if fo is not None:
            env["P_" + f["name"]] = fo
            params.append(f"{f['name']}: T_{f['name']} = P_{f['name']}")
        elif f["required"]:
            params.append(f"{f['name']}: T_{f['name']}")
        else:
            params.append(f"{f['name']}: T_{f['name']} = None")
    if plan.get("posonly_kw"):
        params.insert(1, "/")
    if plan.get("untyped_kwargs"):
        params.append("**kwargs")
    if plan["options"].get("addition") == "leaf":
        env["Leaf"] = faults.Leaf
        params.append("**kwargs: Leaf")
        okw.pop("addition", None)
        if runtime:
            runtime.pop("addition", None)
    exec("def f(%s):\n    return dict(locals())\n" % ", ".join(params), env)
    g = utype.parse(env["f"], options=Options(**(runtime if runtime is not None else okw)), no_cache=True)
    return lambda pos, kw: g(*pos, **kw)


def _observe(plan, r):
    if plan["kind"] == "dataclass":
        return {k: v for k, v in r.__dict__.items() if k != "__context__"}
    if plan["kind"] == "schema":
        return dict(r)
    return r


def _canon(x):
    return kernel.canon_mapping_unordered(kernel.canon(x))


def _errs(e):
    out = []
    for err in getattr(e, "errors", [e]):
        out.append([type(err).__name__, str(getattr(err, "item", None))])
    return sorted(out)


def _run(plan, dfs, collect):
    from utype.utils.exceptions import ParseError, ConfigError
    try:
        call = build(plan, dfs, collect)
    except (ConfigError, SyntaxError, TypeError, ValueError) as e:
        return ("decl", type(e).__name__)
    kw = {}
    for k, v in plan["input"]:
        kw[k] = tdsl.build_value(v)
        if isinstance(v, dict) and "$unprovided" in v:
            import utype
            kw[k] = utype.unprovided
    pos = []
    if plan["kind"] == "func" and plan["positional"]:
        order = [f for f in plan["fields"] if f["required"]] + [f for f in plan["fields"] if not f["required"]]
        for f in order[:plan["positional"]]:
            spell = f["alias"] or f["name"]
            # pass by position only when the value was given under the parameter's own name
            if f["name"] in kw and not f["alias"]:
                pos.append(kw.pop(f["name"]))
                # a call that gives one parameter by position and again under another spelling is not a call
                # Python would bind ("multiple values for argument"): drop the other spellings
                for k in list(kw):
                    if k.lower() in [s_.lower() for s_ in [f["name"]] + f["alias_from"]]:
                        kw.pop(k)
            else:
                break
    if plan.get("posonly_kw") and pos:
        pk = plan["posonly_kw"]
        kw[pk["name"].upper() if pk.get("upper") and plan["options"].get("case_insensitive") else pk["name"]] = tdsl.build_value(pk["value"])
    try:
        return ("ok", _canon(_observe(plan, call(pos, kw))))
    except ParseError as e:
        return ("ParseError", _errs(e))
    except TypeError as e:
        # python's own binding errors for functions (e.g. unexpected keyword) are not parse outcomes
        return ("raw", type(e).__name__, kernel.clean_text(e, 100))
    except Exception as e:  # noqa
        return ("raw", type(e).__name__, kernel.clean_text(e, 100))


def execute(plan):
    res = RunResult()
    kernel.reset_world()
    faults.register_leaves()
    kernel.make_module("verif_c06")
    faults.set_plan(plan["faults"])
    out = {}
    for collect in (False, True):
        for dfs in (True, False):
            out[(collect, dfs)] = _run(plan, dfs, collect)
    res.stats["fault:leaf_fail"] += faults.STATE.fired.get("leaf_fail", 0)
    res.stats["fault:knob_flip"] += 2
    a, b = out[(False, True)], out[(False, False)]
    ca, cb = out[(True, True)], out[(True, False)]
    res.ev("failfast", a, b)
    res.ev("collect", ca, cb)
    if a[0] == "decl" or b[0] == "decl":
        if a != b:
            res.violate("C06|decl|differs", f"declaration accepted under one knob value only: {a} vs {b}")
        return res
    K = plan["kind"]

    def compare(mode, x, y, single):
        """x = data-first outcome, y = field-first outcome."""
        if x[0] != y[0]:
            rej = x if x[0] != "ok" else y
            side = "data_first" if rej is x else "field_first"
            if rej[0] == "ParseError":
                what = "+".join(sorted(set(c for c, _ in rej[1])))
            else:
                what = rej[0] + ":" + str(rej[1])
            other = y if rej is x else x
            res.violate(f"C06|{K}|{mode}|only_{side}_rejects|{what}|other={other[0]}",
                        f"{mode}: data-first {x} vs field-first {y}")
        elif x[0] == "ok" and x[1] != y[1]:
            res.violate(f"C06|{K}|{mode}|value_differs|{_value_diff(x[1], y[1])}",
                        f"{mode}: data-first {x[1]} vs field-first {y[1]}")
        elif x[0] == "raw" and x[1] != y[1]:
            res.violate(f"C06|{K}|{mode}|raw_differs|{x[1]}_vs_{y[1]}", f"{mode}: {x} vs {y}")
        elif x[0] == "ParseError":
            if mode == "collect" and x[1] != y[1]:
                dx = [c for c in x[1] if c not in y[1]]
                dy = [c for c in y[1] if c not in x[1]]
                what = "data_first+" + ",".join(sorted(set(c for c, _ in dx))) + "|field_first+" + ",".join(sorted(set(c for c, _ in dy)))
                res.violate(f"C06|{K}|collect|errors_differ|{what}",
                            f"collected errors differ: data-first {x[1]} vs field-first {y[1]}")
            elif mode == "failfast" and single and x[1][0][0] != y[1][0][0]:
                res.violate(f"C06|{K}|failfast|class_differs|{x[1][0][0]}_vs_{y[1][0][0]}",
                            f"single failing item but error classes differ: {x[1]} vs {y[1]}")
            elif mode == "failfast" and not single and x[1][0] != y[1][0]:
                # several failing items: both strategies go through the fields in the order of declaration and through the
                # additional items after them, so the failure that is met first is the same one
                res.violate(f"C06|{K}|failfast|first_failure_differs|{x[1][0][0]}_vs_{y[1][0][0]}",
                            f"several failing items, the one reported differs: {x[1]} vs {y[1]}")

    compare("collect", ca, cb, False)
    single = ca[0] == "ParseError" and cb[0] == "ParseError" and len(ca[1]) == 1 and len(cb[1]) == 1
    compare("failfast", a, b, single)
    probes = _probes(plan, out)
    for p in probes:
        res.stats["probe:" + p] += 1
    if plan["knob_at"] == "runtime":
        res.stats["probe:runtime_knob"] += 1
    if plan.get("sub"):
        res.stats["probe:inherited_field_redeclared"] += 1
    if plan.get("pre_calls"):
        res.stats["probe:earlier_calls_other_options"] += 1
    if plan.get("helper_method") and any(k == "helper" for k, _v in plan["input"]):
        res.stats["probe:alias_named_like_method"] += 1
    if plan.get("runtime_only"):
        res.stats["probe:options_only_at_runtime"] += 1
    if probes:
        res.nontrivial = kernel.digest_of([plan["kind"], plan["fields"], plan["options"], plan["knob_at"],
                                           [k for k, v in plan["input"]], sorted(plan["faults"]["leaf"].items()), plan["positional"],
                                           sorted((plan.get("sub") or {}).items()), plan.get("runtime_only")])
    return res


def _value_diff(x, y):
    """x, y canonical unordered mapping dumps: classify how they differ."""
    try:
        dx = {kernel.jdump(k): v for k, v in x[1]}
        dy = {kernel.jdump(k): v for k, v in y[1]}
    except Exception:  # noqa
        return "shape"
    if set(dx) - set(dy) and not set(dy) - set(dx):
        return "keys_missing_on_field_first"
    if set(dy) - set(dx) and not set(dx) - set(dy):
        return "keys_missing_on_data_first"
    if set(dx) != set(dy):
        return "key_sets_differ"
    return "values_differ"


def _diffkind(a, b):
    if a[0] != b[0]:
        return f"{a[0]}_vs_{b[0]}"
    return "value_differs"


def _features(plan):
    fs = set()
    for f in plan["fields"]:
        for k in ("alias", "alias_from", "ci", "deps", "no_input", "mode", "on_error"):
            if f[k]:
                fs.add(k)
        if not f["required"]:
            fs.add("default:" + str(f["default"]))
    return "+".join(sorted(fs)) or "-"


def _probes(plan, out):
    ps = set()
    names = {}
    for f in plan["fields"]:
        names[f["alias"] or f["name"]] = f
    given = [k for k, _ in plan["input"]]
    seen = {}
    for k in given:
        hit = None
        for f in plan["fields"]:
            spell = [f["alias"] or f["name"]] + f["alias_from"] + [f["name"]]
            if k in spell:
                hit = f
                if k != (f["alias"] or f["name"]):
                    ps.add("alias_hit")
            elif k.lower() in [s.lower() for s in spell] and (f["ci"] or plan["options"].get("case_insensitive")):
                hit = f
                ps.add("case_fold_hit")
        if hit is None:
            ps.add("unknown_key")
        else:
            if hit["name"] in seen:
                ps.add("alias_conflict")
            seen[hit["name"]] = 1
    for f in plan["fields"]:
        if f["name"] not in seen:
            ps.add("required_missing" if f["required"] else "default_taken")
        for d in f["deps"]:
            if f["name"] in seen and d not in seen:
                ps.add("dependency_missing")
    if plan["faults"]["leaf"] and faults.STATE.fired.get("leaf_fail"):
        ps.add("faulted_leaf")
    return ps


def shrink(plan):
    for i in range(len(plan["input"])):
        p = copy.deepcopy(plan)
        p["input"].pop(i)
        yield p
    for k in list(plan["faults"]["leaf"]):
        p = copy.deepcopy(plan)
        p["faults"]["leaf"].pop(k)
        yield p
    for k in list(plan["options"]):
        p = copy.deepcopy(plan)
        p["options"].pop(k)
        yield p
    for i, f in enumerate(plan["fields"]):
        if len(plan["fields"]) > 1 and not any(f["name"] in g["deps"] for g in plan["fields"]):
            p = copy.deepcopy(plan)
            p["fields"].pop(i)
            yield p
        for k, empty in (("alias", None), ("alias_from", []), ("ci", None), ("deps", []), ("no_input", False), ("mode", None), ("on_error", None)):
            if f[k]:
                p = copy.deepcopy(plan)
                p["fields"][i][k] = empty
                yield p
        if f["type"] != ["leaf"]:
            p = copy.deepcopy(plan)
            p["fields"][i]["type"] = ["leaf"]
            for kv in p["input"]:
                pass
            yield p
    if plan["positional"]:
        p = copy.deepcopy(plan)
        p["positional"] = 0
        yield p
    for k in list(plan.get("sub") or {}):
        p = copy.deepcopy(plan)
        p["sub"].pop(k)
        yield p
    if plan.get("pre_calls"):
        p = copy.deepcopy(plan)
        p["pre_calls"] = p["pre_calls"][:-1]
        yield p
    if plan.get("runtime_only"):
        p = copy.deepcopy(plan)
        p["runtime_only"] = False
        yield p
    if plan["knob_at"] == "runtime":
        p = copy.deepcopy(plan)
        p["knob_at"] = "class"
        yield p
