"""C04 (slice) -- only ParseError escapes, the body is not entered on failure, every call terminates
within a virtual-step budget -- under faults injected at the seams where caller code runs inside a parse.

Decided: error containment under injected faults (leaf converter, pre/post_validate hooks of nested rules,
__validate__ of nested data classes, dunder protocol of nested input objects), "body not entered", and
bounded termination on the step clock. Not decided: totality over the whole value domain (a small pool of
hostile scalars is carried only to give the watchdog something to bite on).
"""
import copy
import datetime
import decimal
import typing

from sim import kernel, faults, tdsl
from sim.runner import RunResult
from sim.vclock import StepClock, StepBudgetExceeded

ID = "C04"
RULE = ("plan = (API kind: rule call / type_transform / Schema / DataClass / function {sync, coroutine, generator, "
        "async generator} x {lazy, eager}; type tree over harness leaves, hook rules, builtin leaves, containers, "
        "| ^ & combinations, nested data classes; input; fault plan: leaf faults with 11 exception classes, transient "
        "leaf faults, n-th call hook faults, n-th call input-protocol faults; collect_errors on/off); non-trivial = "
        ">=1 fault actually fired inside the library; distinct by (API kind, type shape, fired fault sites, exception classes, options)")
ASSUMPTIONS = [
    "slice: containment, body-not-entered and bounded termination under injected faults; totality over all input values is NOT claimed",
    "faults are injected below the top level (nested rules, elements, field values) and, for Cls.__from__(mapping), at the top-level mapping too: there the library itself, not Python's call protocol, iterates it",
    "O2b: no preserve/exclude policy exists in this world, so an unconverted payload inside a created instance or in the arguments of an entered body means a failed conversion got through",
    "default_factory, property setters and top-level __validate__ are documented to propagate caller errors and are not fault sites",
    "KeyboardInterrupt/MemoryError/RecursionError are not injected",
    "step budget 200000 + 20000 per input node is a hang detector, not a performance bound",
    "the fault-free control of every plan (benign scalars, no faults) must succeed, else harness error",
]
COMPONENTS = {
    "real": ["Rule.parse", "LogicalType.logical_parse", "args parsers", "ParserField.parse_value", "BaseParser.parse_data",
             "FunctionParser.parse_params + all four wrappers", "RuntimeContext", "TypeTransformer converters", "init_dataclass"],
    "stub": ["leaf converter", "hook bodies (pre/post_validate, __validate__)", "FaultyList/FaultyDict inputs", "function bodies (flag only)"],
}
TIERS = {
    "quick": {"runs": 12000, "chunk": 100, "selftest": 64, "minimise_s": 30},
    "thorough": {"budget_s": 600, "chunk": 300, "selftest": 512, "minimise_s": 90},
}
PROBES = ["fault_in_set", "fault_in_union", "fault_in_nested_dc", "hook_fault_fired", "input_fault_fired", "typed_extras_fault", "top_level_mapping_fault", "key_str_fault", "forbidden_extra_key", "repr_fault_fired",
          "transient_fired", "hostile_scalar", "body_blocked"]

BUILTINS = {
    "int": int, "float": float, "str": str, "bool": bool, "bytes": bytes,
    "datetime": datetime.datetime, "date": datetime.date, "time": datetime.time,
    "timedelta": datetime.timedelta, "decimal": decimal.Decimal,
}
# constrained types the library ships (with hooks of their own), looked up when a world is built
SHIPPED = {"timestamp": "Timestamp", "year": "Year", "month": "Month", "email": "EmailStr"}
BENIGN = {"int": 3, "float": 1.5, "str": "x", "bool": True, "bytes": b"ab", "datetime": "2020-01-02 03:04:05",
          "date": "2020-01-02", "time": "03:04:05", "timedelta": 12, "decimal": "1.5",
          "timestamp": 12, "year": 2020, "month": 3, "email": "a.b@c.de"}


class ReprBomb:
    """An arbitrary object whose repr()/str() is a hook fault site: building an error message must not leak from it."""

    def __repr__(self):
        faults.hook_point("repr")
        return "<ReprBomb>"

    __str__ = __repr__


class HostileObj:
    """An arbitrary input object: each of the dunder methods a parser may touch is a hook fault site."""
    __slots__ = ("n",)

    def __init__(self, n):
        self.n = n

    def __str__(self):
        faults.hook_point("obj.__str__")
        return "ho%d" % self.n

    def __repr__(self):
        faults.hook_point("obj.__repr__")
        return "<ho%d>" % self.n

    def __format__(self, spec):
        faults.hook_point("obj.__str__")
        return "ho%d" % self.n

    def __eq__(self, other):
        faults.hook_point("obj.__eq__")
        return self is other

    def __ne__(self, other):
        faults.hook_point("obj.__ne__")
        return self is not other

    def __hash__(self):
        return self.n      # (not a fault site: the harness itself puts these objects into dicts)


class HashBomb:
    """A value (never a key the harness itself builds) whose __hash__ is a hook fault site."""

    def __hash__(self):
        faults.hook_point("obj.__hash__")
        return 7

    def __eq__(self, other):
        return self is other

    def __repr__(self):
        return "<HashBomb>"


class HostileObj2(HostileObj):
    """... and the operators a constraint validator applies to the value."""
    __slots__ = ()

    def __len__(self):
        faults.hook_point("obj.__len__")
        return 2

    def _cmp(self, other):
        faults.hook_point("obj.__cmp__")
        return False

    __lt__ = __le__ = __gt__ = __ge__ = _cmp

    def __mod__(self, other):
        faults.hook_point("obj.__mod__")
        return 0

    def __floordiv__(self, other):
        faults.hook_point("obj.__mod__")
        return 1

    def __iter__(self):
        faults.hook_point("obj.__iter__")
        return iter(())

    def __getitem__(self, item):
        faults.hook_point("obj.__iter__")
        raise IndexError(item)

    __hash__ = HostileObj.__hash__


# constrained types: name -> (bases, constraints, benign value); 'o'-kinds have no origin type, so any object reaches the validators
CON = {
    "olen": ((), {"max_length": 3}, "ab"), "ominlen": ((), {"min_length": 1}, "ab"), "olength": ((), {"length": 2}, "ab"),
    "ogt": ((), {"gt": 0}, 3), "ole": ((), {"le": 10}, 3), "omul": ((), {"multiple_of": 3}, 3), "oconst": ((), {"const": 5}, 5),
    "oenum": ((), {"enum": [1, 2]}, 1), "oregex": ((), {"regex": "a+"}, "aa"),
    "dgt": ((decimal.Decimal,), {"gt": 0}, "1.5"), "dmul": ((decimal.Decimal,), {"multiple_of": 3}, "3"),
    "ddig": ((decimal.Decimal,), {"max_digits": 8, "decimal_places": 2}, "1.5"), "fmul": ((float,), {"multiple_of": 0.5}, 1.5),
    "fdig": ((float,), {"max_digits": 5}, 1.5), "ile": ((int,), {"le": 100, "ge": -100}, 3),
    "sre": ((str,), {"regex": "a+", "max_length": 5}, "aa"), "uniq": ((list,), {"unique_items": True}, [1, 2]),
    "dtle": ((datetime.datetime,), {"le": datetime.datetime(2100, 1, 1)}, "2020-01-02 03:04:05"),
}
CON_NAMES = sorted(CON)
_CON_T = {}


def con_type(name):
    from utype import Rule
    if name not in _CON_T:
        bases, kw, _ = CON[name]
        _CON_T[name] = type("C_" + name, bases + (Rule,), dict(kw, __module__="verif_c04"))
    return _CON_T[name]


def _self_list():
    a = []
    a.append(a)
    return a


def _mutual_lists():
    a, b = [], []
    a.append(b)
    b.append(a)
    return a


CLOCK = [None]      # the step clock of the attempt that is running (input objects that never end tick it themselves)


class Endless:
    """An iterator without an end (an 'iterators' input): every item it hands out is a virtual step, so walking through it
    is stopped by the watchdog like a loop in the library's own code."""

    def __iter__(self):
        return self

    def __next__(self):
        clk = CLOCK[0]
        if clk is not None:
            clk.steps += 1
            if clk.steps > clk.budget:
                clk.last = ("<input>", "Endless.__next__", 0)
                raise StepBudgetExceeded(f"{clk.steps} steps walking through an endless iterator")
        return 0

    def __repr__(self):
        return "<Endless>"


def hostile_pool():
    return _hostile_base() + [_self_list(), _mutual_lists(), ReprBomb(), [ReprBomb()]] + _hostile_wrapped() + _hostile_more()


def _hostile_more():
    # (appended: the indices of the older entries are part of recorded plans)
    return [Endless(), [Endless()], datetime.datetime.min, datetime.datetime.max, datetime.date.min, datetime.timedelta.max, datetime.timedelta.min]


def _hostile_wrapped():
    # the same scalars behind one level of container: converters unwrap single-item containers before they look at the value
    return [[float("inf")], (float("nan"),), [float("-inf")], {decimal.Decimal("Infinity")}, [decimal.Decimal("NaN")], [1e308],
            [10 ** 400], ["nan"], [[float("inf")]], [b"\xff"], (None,), [object], [complex(1, 1)], "{a b}", "(1 2)", "[1,", "{'a': }"]


def _hostile_base():
    return [float("inf"), float("-inf"), float("nan"), 10 ** 400, -0.0, "", b"\xff\xfe", 1e308, "nan", "inf",
            "-inf", "1e999", decimal.Decimal("Infinity"), decimal.Decimal("NaN"), [], {}, (), None, object,
            "9" * 400, b"", "\x00", [[]], {"a": {}}, 2 ** 63, -2 ** 63 - 1, 1e-320, "１２", " 3 ", "0x10",
            complex(1, 1), bytearray(b"\xff"), "P1D", "1 days, 0:00:00", "24:00:00", "0000-00-00", 1e20, -1e20,
            "２０２０-01-01", frozenset(), range(3), decimal.Decimal("1e1000000"), "true", "null", 253402300800]


N_HOSTILE = len(hostile_pool())
N_WRAPPED_END = N_HOSTILE - len(_hostile_more())


# ----------------------------------------------------------------------------- generation

def gen_scalar(rng):
    r = rng.random()
    if r < 0.3:
        return ["leaf"]
    if r < 0.4:
        return ["leaf2"]
    if r < 0.55:
        return ["hook"]
    if r < 0.65:
        return ["union", ["leaf"], ["leaf2"]]
    if r < 0.7:
        return ["opt", ["leaf"]]
    if r < 0.75:
        return ["xor", ["leaf"], ["int"]]
    if r < 0.8:
        return ["and", ["leaf"], ["hook"]]
    if r < 0.85:
        return ["union", ["hook"], ["leaf2"]]
    if r < 0.93:
        return ["con", rng.choice(CON_NAMES)]
    if r >= 0.985:
        # typing.Any as an element type: nothing converts the element, so a set of them meets elements it cannot hash
        return ["any"]
    return ["b", rng.choice(sorted(BUILTINS) + sorted(SHIPPED))]


def gen_type(rng, depth, allow_dc=True):
    if depth <= 0:
        return gen_scalar(rng)
    r = rng.random()
    if r < 0.12 and allow_dc:
        return ["dc", "Inner"]
    inner = gen_type(rng, depth - 1, allow_dc)
    k = rng.choice(["list", "list", "set", "fset", "tup", "ftup", "dict", "dict", "cont"])
    hashable = tdsl_is_hashable(inner)
    if k == "cont":
        # a list constrained by contains=<scalar type>: every element is tried against that type
        return ["cont", gen_scalar(rng)]
    if k in ("set", "fset") and rng.random() < 0.15:
        # a set of typing.Any: nothing converts the elements, so the set is built from elements it may not be able to hash
        return [k, ["any"]]
    if k in ("set", "fset") and not hashable:
        k = "list"
    if k == "ftup":
        return ["ftup", inner, gen_scalar(rng)]
    if k == "dict":
        return ["dict", rng.choice([["keyleaf"], ["str"], ["keyleaf"]]), inner]
    return [k, inner]


def tdsl_is_hashable(t):
    k = t[0]
    if k == "con":
        return t[1] != "uniq"
    if k in ("leaf", "leaf2", "keyleaf", "hook", "b", "any"):
        return k != "b" or t[1] not in ()
    if k in ("opt", "union", "xor", "and"):
        return all(tdsl_is_hashable(x) for x in t[1:])
    return False


def gen_value(rng, t, pool, pos, depth, hostile_p):
    k = t[0]
    if k in ("leaf", "leaf2", "keyleaf", "hook"):
        pid = pool.next()
        pos.append((("leaf" if k == "hook" else k), pid))
        return {"$r": pid}
    if k == "b":
        if rng.random() < hostile_p:
            if t[1] in SHIPPED and rng.random() < 0.4:
                # (the values the hooks of the shipped types look at: dates, times and durations at their limits)
                return {"$b": [t[1], N_HOSTILE - rng.choice([1, 2, 3, 4, 5])]}
            return {"$b": [t[1], rng.randrange(N_HOSTILE)]}
        return {"$b": [t[1], -1]}
    if k == "any":
        return {"$unhashable": 1} if rng.random() < 0.5 else 3
    if k == "con":
        r = rng.random()
        if t[1].startswith("o") and r < 0.6:
            return {"$conho": [t[1], 20 + pool.next()]}
        return {"$con": [t[1], rng.randrange(N_HOSTILE) if r < 0.8 else -1]}
    if k == "int":
        return 3
    if k == "opt":
        return None if rng.random() < 0.1 else gen_value(rng, t[1], pool, pos, depth, hostile_p)
    if k in ("union", "xor", "and"):
        pid = pool.next()
        for b in t[1:]:
            if b[0] in ("leaf", "leaf2", "hook"):
                pos.append((("leaf" if b[0] == "hook" else b[0]), pid))
        return {"$r": pid}
    if k == "cont":
        items = [gen_value(rng, t[1], pool, pos, depth + 1, hostile_p) for _ in range(rng.choice([1, 2, 3]))]
        # (the 'contains' check walks the value itself: its iteration is a fault site too)
        return {"$fl": items} if depth >= 1 and rng.random() < 0.3 else items
    if k in ("list", "set", "fset", "tup"):
        items = [gen_value(rng, t[1], pool, pos, depth + 1, hostile_p) for _ in range(rng.choice([0, 1, 2, 2, 3, 5]))]
        if depth >= 1 and rng.random() < 0.25:
            return {"$fl": items}
        if k in ("set", "fset") and rng.random() < 0.4 and all("$r" in x for x in items if isinstance(x, dict)) and items:
            return {"$set": items}
        return items
    if k == "ftup":
        items = [gen_value(rng, x, pool, pos, depth + 1, hostile_p) for x in t[1:]]
        if rng.random() < 0.15:
            items = items[:-1] if rng.random() < 0.5 else items + [1]
        return items
    if k == "dict":
        pairs = [[gen_value(rng, t[1], pool, pos, depth + 1, 0) if t[1][0] != "str" else "k%d" % pool.next(),
                  gen_value(rng, t[2], pool, pos, depth + 1, hostile_p)] for _ in range(rng.choice([0, 1, 2, 3]))]
        if t[1][0] == "str":
            if pairs and rng.random() < 0.15:
                # a key that is not a str but an object that has to be turned into one
                pairs[0][0] = {"$ho": 10 + pool.next()}
                return {"$map": pairs}
            d = {a: b for a, b in pairs}
            if depth >= 1 and rng.random() < 0.25:
                return {"$fd": d}
            return d
        return {"$map": pairs}
    if k == "dc":
        d = {"x": gen_value(rng, ["leaf"], pool, pos, depth + 1, 0),
             "ys": gen_value(rng, ["list", ["hook"]], pool, pos, depth + 1, 0)}
        if depth >= 1 and rng.random() < 0.2:
            return {"$fd": d}
        return d
    raise ValueError(t)


APIS = ["rule", "transform", "schema", "schema", "dataclass", "func_sync", "func_coro", "func_gen", "func_agen"]


def generate(rng, tier):
    api = rng.choice(APIS)
    pool = tdsl.PidPool()
    pos = []
    hostile_p = rng.choice([0, 0, 0.3, 0.8])
    plan = {"prop": ID, "api": api, "collect": rng.random() < 0.3, "eager": rng.random() < 0.5,
            "positional": rng.random() < 0.4}
    if api in ("rule", "transform"):
        t = gen_type(rng, rng.choice([0, 0, 1, 1, 2, 2, 3]))     # 0: a constrained type / logical combination at the top
        if rng.random() < 0.15:
            t = ["con", rng.choice(CON_NAMES)]
        if rng.random() < 0.12:
            t = ["b", rng.choice(sorted(SHIPPED))]      # a constrained type the library ships, called directly
            hostile_p = 0.9
        if rng.random() < 0.06:
            # a constrained type with pre_validate / post_validate hooks of its own (what they raise for a value means the
            # value does not parse, as for the hooks of the types the library ships)
            t = ["hook"]
        while t[0] in ("leaf", "leaf2", "keyleaf", "b", "any") and not (t[0] == "b" and t[1] in SHIPPED):
            # a plain registered type handed to type_transform is not one of the statement's subjects
            # ("constrained and logical types, data classes and decorated functions")
            t = gen_type(rng, 0)
        plan["type"] = t
        # (the container handed to a constrained / generic type is iterated by the library itself: a fault site at the top too)
        plan["input"] = gen_value(rng, t, pool, pos, 1 if rng.random() < 0.3 else 0, hostile_p)
    else:
        fields = []
        inp = {}
        for i in range(rng.choice([1, 2, 2, 3])):
            t = gen_type(rng, rng.choice([0, 0, 1, 1, 2]))
            fields.append({"name": "p%d" % i, "type": t})
            inp["p%d" % i] = gen_value(rng, t, pool, pos, 1, hostile_p)
        if api in ("schema", "dataclass") and rng.random() < 0.15:
            # one field is given twice, under its name and under an alias, and the two values are arbitrary objects
            f = rng.choice(fields)
            f["alias"] = "al_" + f["name"]
            inp[f["name"]] = {"$ho": 1}
            plan["dup"] = {"al_" + f["name"]: {"$ho": 2}}
        if api in ("schema", "dataclass") and rng.random() < 0.12:
            fields.append({"name": "dsc", "type": ["disc"]})
            inp["dsc"] = rng.choice([{"kind": "a"}, {"kind": {"$unhashable": 1}}, {"kind": {"$ho": 3}}, {"kind": "zz"}, 5, {"kind": {"$hb": 1}}, {"kind": {"$hb": 1}}, {"$fd": {"kind": "a"}}, {"$fd": {"kind": "b"}},
                                     {"$fl": [["kind", "a"]]}, {"$fl": [["kind", "a"]]}, {"$fl": [["kind", "b"]]}, {"$conho": ["olen", 7]},
                                     {"$con": ["olen", N_WRAPPED_END - rng.choice([1, 2, 3, 4])]}])
        plan["fields"] = fields
        plan["input"] = inp
        if api in ("func_gen", "func_agen") and rng.random() < 0.5:
            plan["gen_send"] = pool.next()
            pos.append(("leaf", plan["gen_send"]))
        if api.startswith("func") and rng.random() < 0.25:
            # *args: Leaf -- the extra positional values are converted one by one
            plan["positional"] = True
            plan["varargs"] = [gen_value(rng, ["leaf"], pool, pos, 1, 0) for _ in range(rng.choice([1, 2, 3]))]
        if api.startswith("func") and rng.random() < 0.25:
            # the declared return / yield type is a harness leaf and the body hands back a payload
            plan["ret"] = pool.next()
            pos.append(("leaf", plan["ret"]))
        # typed extras: Options(addition=Leaf) for data classes, **kwargs: Leaf for functions
        plan["extras"] = {}
        if rng.random() < 0.35:
            plan["typed_extras"] = True
            for j in range(rng.choice([1, 1, 2])):
                plan["extras"]["x%d" % j] = gen_value(rng, ["leaf"], pool, pos, 1, 0)
        elif rng.random() < 0.3 and not (api.startswith("func") and plan["positional"]):
            # extras that are not allowed (addition=False): the value of an exceeding key may be any object
            plan["forbid_extras"] = True
            for j in range(rng.choice([1, 2])):
                plan["extras"]["x%d" % j] = rng.choice([{"$bomb": 1}, gen_value(rng, ["leaf"], pool, pos, 1, 0), {"$b": ["int", rng.randrange(N_HOSTILE)]}])
        if api in ("schema", "dataclass") and rng.random() < 0.08:
            # a key of the data may have any name, also that of a parameter of the generated constructor
            special = rng.choice(["_obj_self", "_d", "self", "cls", "args", "kwargs"])
            if "x0" in plan["extras"]:
                plan["extras"][special] = plan["extras"].pop("x0")      # (typed or forbidden like the others)
            else:
                plan["extras"][special] = rng.choice([1, {"a": 5}, "note", None])
        # the mapping handed to __from__ is iterated by the library itself: a legitimate fault site at the top level
        if api in ("schema", "dataclass") and plan["eager"]:
            plan["top_fd"] = rng.random() < 0.3
            if rng.random() < 0.3:
                plan["cast_keys"] = True       # Options(cast_keyword_str=True) + keys that are objects, some with a failing __str__
    fl, tr = {}, {}
    nf = rng.choice([1, 1, 2, 3])
    if pos:
        for lk, pid in rng.sample(pos, min(nf, len(pos))):
            fid = str(faults.fault_id(faults.LEAF_TYPES[lk], pid))
            if rng.random() < 0.2:
                tr[fid] = [rng.choice(faults.EXC_NAMES), rng.choice([1, 2, 3])]
            else:
                fl[fid] = rng.choice(faults.EXC_NAMES)
    dump = kernel.jdump([plan.get("type"), plan.get("fields"), plan["input"]])
    hooks = {}
    hook_sites = (["pre", "post"] if '"hook"' in dump or '"dc"' in dump else []) + (["validate:Inner"] if '"dc"' in dump else [])
    if hook_sites and rng.random() < 0.5:
        for _ in range(rng.choice([1, 1, 2])):
            site = rng.choice(hook_sites)
            hooks.setdefault(site, {})[str(rng.choice([1, 1, 2, 3, 5]))] = rng.choice(faults.EXC_NAMES)
    if plan.get("type") == ["hook"] and rng.random() < 0.7:
        # the type with hooks stands alone: its one value converts, one of its hooks fails at its first call
        fl.clear()
        tr.clear()
        hooks = {rng.choice(["pre", "post", "post"]): {"1": rng.choice(faults.EXC_NAMES)}}
    if plan.get("cast_keys") and rng.random() < 0.7:
        hooks.setdefault("key_str", {})[str(rng.choice([1, 1, 2, 3]))] = rng.choice(faults.EXC_NAMES)
    if ('"$bomb"' in kernel.jdump(plan.get("extras", {})) or hostile_p) and rng.random() < 0.6:
        hooks.setdefault("repr", {})[str(rng.choice([1, 1, 2, 3]))] = rng.choice(faults.EXC_NAMES)
    if '"$ho"' in kernel.jdump([plan["input"], plan.get("dup")]):
        for _ in range(rng.choice([1, 2])):
            hooks.setdefault(rng.choice(["obj.__ne__", "obj.__eq__", "obj.__str__", "obj.__repr__"]), {})[str(rng.choice([1, 1, 2]))] = rng.choice(faults.EXC_NAMES)
    if '"$hb"' in kernel.jdump(plan["input"]):
        hooks.setdefault("obj.__hash__", {})[str(rng.choice([1, 1, 2]))] = rng.choice(faults.EXC_NAMES)
    if '"$conho"' in kernel.jdump(plan["input"]):
        for _ in range(rng.choice([1, 1, 2])):
            hooks.setdefault(rng.choice(["obj.__len__", "obj.__cmp__", "obj.__mod__", "obj.__ne__", "obj.__eq__", "obj.__str__", "obj.__iter__"]), {})[str(rng.choice([1, 1, 2]))] = rng.choice(faults.EXC_NAMES)
    inputs = {}
    in_sites = []
    if plan.get("top_fd"):
        in_sites += ["fd.items", "fd.items.next", "fd.__iter__", "fd.keys", "fd.__getitem__", "fd.__len__"]
    if '"$fl"' in dump:
        in_sites += ["fl.__iter__", "fl.__next__", "fl.__len__", "fl.__getitem__"]
    if '"$fd"' in dump:
        in_sites += ["fd.items", "fd.items.next", "fd.__iter__", "fd.keys", "fd.__getitem__", "fd.__len__", "fd.get"]
    if in_sites and rng.random() < 0.7:
        for _ in range(rng.choice([1, 1, 2])):
            site = rng.choice(in_sites)
            inputs.setdefault(site, {})[str(rng.choice([1, 1, 2, 3]))] = rng.choice(faults.EXC_NAMES)
    plan["faults"] = {"leaf": fl, "transient": tr, "hook": hooks, "input": inputs}
    return plan


# ----------------------------------------------------------------------------- world

FLAGS = []


def make_env():
    """Harness types that must be created after the leaf converter is registered."""
    from utype import Rule, Schema, Field

    class HookLeaf(Rule):
        __origin__ = faults.Leaf

        @classmethod
        def pre_validate(cls, value, context=None):
            faults.hook_point("pre")
            return value

        @classmethod
        def post_validate(cls, value, context=None):
            faults.hook_point("post")
            return value

    ns = {"__annotations__": {"x": faults.Leaf, "ys": typing.List[HookLeaf]}, "__module__": "verif_c04",
          "__qualname__": "Inner", "ys": Field(default_factory=list)}

    def __validate__(self):
        faults.hook_point("validate:Inner")
    ns["__validate__"] = __validate__
    Inner = type("Inner", (Schema,), ns)
    return {"hook": HookLeaf, "Inner": Inner}


_DISC = {}


def build_type(t, env):
    k = t[0]
    if k == "disc":
        if not _DISC:
            from utype import Schema
            try:
                from typing import Literal
            except ImportError:  # pragma: no cover
                from typing_extensions import Literal
            A = type("DA", (Schema,), {"__annotations__": {"kind": Literal["a"]}, "kind": "a", "__module__": "verif_c04", "__qualname__": "DA"})
            B = type("DB", (Schema,), {"__annotations__": {"kind": Literal["b"]}, "kind": "b", "__module__": "verif_c04", "__qualname__": "DB"})
            _DISC["t"] = typing.Union[A, B]
        return _DISC["t"]
    if k == "hook":
        return env["hook"]
    if k == "con":
        return con_type(t[1])
    if k == "b":
        if t[1] in SHIPPED:
            from utype import types as shipped
            return getattr(shipped, SHIPPED[t[1]])
        return BUILTINS[t[1]]
    if k == "any":
        return typing.Any
    if k == "and":
        from utype.parser.rule import LogicalType
        return LogicalType.all_of(*[build_type(x, env) for x in t[1:]])
    if k == "xor":
        from utype.parser.rule import LogicalType
        return LogicalType.one_of(*[build_type(x, env) for x in t[1:]])
    if k in ("leaf", "leaf2", "keyleaf", "int", "str"):
        return tdsl.build_type(t)
    if k == "dc":
        return env[t[1]]
    sub = [build_type(x, env) for x in t[1:]]
    if k == "cont":
        from utype import Rule
        return Rule.annotate(list, constraints={"contains": Rule.parse_annotation(annotation=sub[0])})
    if k == "list":
        return typing.List[sub[0]]
    if k == "set":
        return typing.Set[sub[0]]
    if k == "fset":
        return typing.FrozenSet[sub[0]]
    if k == "tup":
        return typing.Tuple[sub[0], ...]
    if k == "ftup":
        return typing.Tuple[tuple(sub)]
    if k == "dict":
        return typing.Dict[sub[0], sub[1]]
    if k == "opt":
        return typing.Optional[sub[0]]
    if k == "union":
        return typing.Union[sub[0], sub[1]]
    raise ValueError(t)


def build_value(v, hostile):
    if isinstance(v, dict):
        if "$bomb" in v:
            return ReprBomb()
        if "$ho" in v:
            return HostileObj(v["$ho"])
        if "$unhashable" in v:
            return []
        if "$hb" in v:
            return HashBomb() if hostile else "a"
        if "$conho" in v:
            return HostileObj2(v["$conho"][1]) if hostile else copy.copy(CON[v["$conho"][0]][2])
        if "$con" in v:
            name, idx = v["$con"]
            return hostile_pool()[idx] if idx >= 0 and hostile else copy.copy(CON[name][2])
        if "$b" in v:
            name, idx = v["$b"]
            if idx >= 0 and hostile:
                return hostile_pool()[idx]
            return BENIGN[name]
        if "$r" in v:
            return faults.Raw(v["$r"])
        if "$set" in v:
            return set(build_value(x, hostile) for x in v["$set"])
        if "$map" in v:
            return {build_value(a, hostile): build_value(b, hostile) for a, b in v["$map"]}
        if "$fl" in v:
            return faults.FaultyList(build_value(x, hostile) for x in v["$fl"])
        if "$fd" in v:
            return faults.FaultyDict({a: build_value(b, hostile) for a, b in v["$fd"].items()})
        return {a: build_value(b, hostile) for a, b in v.items()}
    if isinstance(v, list):
        return [build_value(x, hostile) for x in v]
    return v


class KeyObj:
    """A mapping key that is not a str; str() of it is a hook fault site (cast_keyword_str)."""
    __slots__ = ("name",)

    def __init__(self, name):
        self.name = name

    def __str__(self):
        faults.hook_point("key_str")
        return self.name

    def __hash__(self):
        return hash(("KeyObj", self.name))

    def __eq__(self, other):
        return type(other) is KeyObj and other.name == self.name

    def __repr__(self):
        return f"KeyObj({self.name!r})"


def _has_raw(x, depth=0):
    """An unconverted payload somewhere in what the body / the instance received."""
    if depth > 8:
        return False
    if isinstance(x, faults.Raw):
        return True
    if isinstance(x, dict):
        return any(_has_raw(k, depth + 1) or _has_raw(v, depth + 1) for k, v in list(dict.items(x)))
    if isinstance(x, list):
        # (a faulty input list may have reached this place as it is - 'contains' does not convert -: read it without its own protocol)
        return any(_has_raw(v, depth + 1) for v in list.__iter__(x))
    if isinstance(x, (tuple, set, frozenset)):
        return any(_has_raw(v, depth + 1) for v in x)
    d = getattr(x, "__dict__", None)
    if isinstance(d, dict) and hasattr(type(x), "__parser__"):
        return any(_has_raw(v, depth + 1) for k, v in d.items() if k != "__context__")
    return False


def _drive(x):
    """Complete a coroutine / first step of an async generator without an event loop (bodies never await)."""
    try:
        while True:
            x.send(None)
    except StopIteration as e:
        return e.value


def build_call(plan, env):
    import utype
    from utype import Schema, DataClass, Options, Rule
    api = plan["api"]
    okw = {}
    if plan["collect"]:
        okw["collect_errors"] = True
    if plan.get("typed_extras") and api in ("schema", "dataclass"):
        okw["addition"] = faults.Leaf
    if plan.get("forbid_extras"):
        okw["addition"] = False
    if plan.get("cast_keys"):
        okw["cast_keyword_str"] = True
    opts = Options(**okw) if okw else None
    if api in ("rule", "transform"):
        T = Rule.parse_annotation(annotation=build_type(plan["type"], env))
        if api == "rule" and isinstance(T, type) and issubclass(T, Rule) and not plan["collect"]:
            return lambda v: T(v)
        return lambda v: utype.type_transform(v, T, options=opts or Options())
    if api in ("schema", "dataclass"):
        ns = {"__annotations__": {f["name"]: build_type(f["type"], env) for f in plan["fields"]},
              "__module__": "verif_c04", "__qualname__": "Top"}
        from utype import Field as _Field
        for f in plan["fields"]:
            if f.get("alias"):
                ns[f["name"]] = _Field(alias_from=[f["alias"]])
            if f["type"] == ["disc"]:
                ns[f["name"]] = _Field(discriminator="kind")
        if opts:
            ns["__options__"] = opts
        cls = type("Top", (Schema if api == "schema" else DataClass,), ns)

        def seen(inst):
            # O2b: an instance was created: nothing in it may be an unconverted payload
            if _has_raw(dict(inst) if api == "schema" else {k: x for k, x in inst.__dict__.items() if k != "__context__"}):
                FLAGS.append("raw_leaked")
            return inst
        if plan["eager"]:
            return lambda v: seen(cls.__from__(v))
        return lambda v: seen(cls(**v))
    names = [f["name"] for f in plan["fields"]]
    g = {"FLAGS": FLAGS, "__name__": "verif_c04"}
    for f in plan["fields"]:
        g["T_" + f["name"]] = build_type(f["type"], env)
    params = ", ".join(f"{n}: T_{n}" for n in names)
    if plan.get("varargs"):
        params += ", *args: Leaf"
    if plan.get("typed_extras"):
        g["Leaf"] = faults.Leaf
        params += ", **kwargs: Leaf"
    g["_has_raw"] = _has_raw
    mark = "    FLAGS.append('body')\n    if _has_raw(list(locals().values())):\n        FLAGS.append('raw_leaked')\n"
    send = plan.get("gen_send") is not None and api in ("func_gen", "func_agen")
    ret = plan.get("ret")
    sent_mark = "    if _has_raw([got]):\n        FLAGS.append('raw_leaked')\n    yield " + ("RET" if ret is not None else "2") + "\n"
    if ret is not None:
        # what the body hands back is converted after the body has legitimately run
        mark += "    FLAGS.append('sending')\n"
        g["RET"] = faults.Raw(ret)
    yt = "Leaf" if ret is not None else "int"
    y1 = "RET" if ret is not None else "1"
    body = {"func_sync": "def f(%s)" + (" -> Leaf" if ret is not None else "") + ":\n" + mark + "    return " + y1 + "\n",
            "func_coro": "async def f(%s)" + (" -> Leaf" if ret is not None else "") + ":\n" + mark + "    return " + y1 + "\n",
            "func_gen": "def f(%s)" + (" -> Generator[" + yt + ", Leaf, None]" if send or ret is not None else "") + ":\n" + mark + ("    got = yield " + y1 + "\n" + sent_mark if send else "    yield " + y1 + "\n"),
            "func_agen": "async def f(%s)" + (" -> AsyncGenerator[" + yt + ", Leaf]" if send or ret is not None else "") + ":\n" + mark + ("    got = yield " + y1 + "\n" + sent_mark if send else "    yield " + y1 + "\n")}[api]
    g["Generator"], g["AsyncGenerator"], g["Leaf"] = typing.Generator, typing.AsyncGenerator, faults.Leaf
    exec(body % params, g)
    w = utype.parse(g["f"], options=opts, eager=plan["eager"], no_cache=True)

    def call(v):
        if plan["positional"]:
            r = w(*[v[n] for n in names], *[build_value(x, True) for x in plan.get("varargs") or []],
                  **{k: x for k, x in v.items() if k not in names})
        else:
            r = w(**v)
        if api == "func_coro":
            return _drive(r)
        if api == "func_gen":
            first = next(r)
            if send:
                # a value sent into the generator is converted before the body sees it
                FLAGS.append("sending")
                return r.send(faults.Raw(plan["gen_send"]))
            return first
        if api == "func_agen":
            first = _drive(r.__anext__())
            if send:
                FLAGS.append("sending")
                return _drive(r.asend(faults.Raw(plan["gen_send"])))
            return first
        return r
    return call


def _count_nodes(v):
    if isinstance(v, dict):
        return 1 + sum(_count_nodes(x) for x in v.values())
    if isinstance(v, list):
        return 1 + sum(_count_nodes(x) for x in v)
    return 1


def _attempt(plan, env, hostile, budget):
    from utype.utils.exceptions import ParseError
    call = build_call(plan, env)
    value = build_value(plan["input"], hostile)
    for k, x in (plan.get("extras") or {}).items():
        if plan.get("forbid_extras") and not hostile:
            continue     # the fault-free control does not carry the forbidden keys
        value[k] = build_value(x, hostile)
    if not hostile:
        plan = dict(plan, dup=None)     # nor the second spelling of a field
    for k, x in (plan.get("dup") or {}).items():
        value[k] = build_value(x, hostile)
    if plan.get("cast_keys"):
        value = {(KeyObj(k) if i % 2 == 0 else k): x for i, (k, x) in enumerate(value.items())}
    if plan.get("top_fd"):
        value = faults.FaultyDict(value)
    del FLAGS[:]
    clock = StepClock(budget)
    CLOCK[0] = clock
    try:
        with clock:
            got = call(value)
        if plan.get("ret") is not None and _has_raw([got]):
            FLAGS.append("raw_leaked")      # a declared return / yield type and a payload handed back unconverted
        out = ("ok",)
    except ParseError as e:
        out = ("ParseError",)
    except StepBudgetExceeded as e:
        out = ("hang", clock.last)
    except Exception as e:  # noqa
        out = ("raw", type(e).__name__, kernel.clean_text(e, 140))
    # (a rejected *sent* value is reported after the body has legitimately started)
    return out, clock.steps, ("body" in FLAGS and "sending" not in FLAGS), ("raw_leaked" in FLAGS)


def execute(plan):
    res = RunResult()
    kernel.reset_world()
    faults.register_leaves()
    kernel.make_module("verif_c04")
    env = make_env()
    budget = 200000 + 20000 * _count_nodes(plan["input"])

    # O4: fault-free control with benign scalars must succeed
    out, steps, body, leaked = _attempt(plan, env, hostile=False, budget=budget)
    if out[0] == "raw":
        # no fault, no hostile value, and an exception that is no ParseError: the claim itself
        res.violate(f"C04|O1|{plan['api']}|control|{out[1]}", f"the fault-free input with benign values raised {out[1]}: {out[2]}")
        return res
    if out[0] != "ok":
        if _control_may_reject(plan):
            res.ev("control", "rejects-structurally")
        else:
            raise kernel.HarnessError(f"C04 control failed: {out} plan={kernel.jdump(plan)}")
    else:
        res.ev("control", "ok")
    res.stats["vsteps"] += steps

    faults.reset()
    faults.register_leaves() if False else None
    faults.set_plan(plan["faults"])
    out, steps, body, leaked = _attempt(plan, env, hostile=True, budget=budget)
    st = faults.STATE
    res.stats["vsteps"] += steps
    for k, v in st.fired.items():
        res.stats["fault:" + k] += v
    res.ev("call", out[:1], "body" if body else "nobody")  # step counts are not part of the digest: set iteration order of str elements follows PYTHONHASHSEED

    api = plan["api"]
    sites = sorted(k for k, v in st.fired.items() if v)
    inner = _innermost(plan)
    if out[0] == "raw":
        res.violate(f"C04|O1|{api}|{inner}|{out[1]}",
                    f"{out[1]} escaped from {api} call (fired sites {sites}): {out[2]}")
    elif out[0] == "hang":
        # (where the budget ran out is not part of the fingerprint: a loop spanning several functions ends in any of them)
        res.violate(f"C04|O3|{api}|{inner}|hang",
                    f"call exceeded {budget} virtual steps at {out[1]}")
    elif out[0] == "ParseError" and body:
        res.violate(f"C04|O2|{api}|{inner}|body_entered", "parameters failed to parse but the function body was entered")
    if leaked and '"cont"' in kernel.jdump(plan.get("type") or plan.get("fields")):
        leaked = False      # 'contains' only tests the elements, it does not convert them: payloads legitimately stay as they are
    if leaked:
        res.violate(f"C04|O2|{api}|{inner}|unconverted_value_got_through",
                    f"a value whose conversion failed reached the {'function body' if api.startswith('func') else 'created instance'} unconverted (fired sites {sites}, outcome {out[0]})")
    if out[0] == "ParseError" and api.startswith("func"):
        res.stats["probe:body_blocked"] += 1
    if st.fired.get("hook_fail"):
        res.stats["probe:hook_fault_fired"] += 1
    if st.fired.get("input_fail"):
        res.stats["probe:input_fault_fired"] += 1
    if st.fired.get("leaf_transient"):
        res.stats["probe:transient_fired"] += 1
    if plan.get("typed_extras") and any(str(faults.fault_id(faults.Leaf, x["$r"])) in plan["faults"]["leaf"] for x in plan.get("extras", {}).values()):
        res.stats["probe:typed_extras_fault"] += 1
    if plan.get("forbid_extras"):
        res.stats["probe:forbidden_extra_key"] += 1
    if st.hook_calls.get("repr", 0) and "repr" in plan["faults"]["hook"] and st.fired.get("hook_fail"):
        res.stats["probe:repr_fault_fired"] += 1
    if plan.get("top_fd") and st.fired.get("input_fail"):
        res.stats["probe:top_level_mapping_fault"] += 1
    if plan.get("cast_keys") and st.hook_calls.get("key_str", 0) and "key_str" in plan["faults"]["hook"]:
        res.stats["probe:key_str_fault"] += 1
    if '"$b":["' in kernel.jdump(plan["input"]) and any(i >= 0 for i in _hostile_idx(plan["input"])):
        res.stats["probe:hostile_scalar"] += 1
    if st.fired.get("leaf_fail") or st.fired.get("leaf_transient"):
        if "set" in inner:
            res.stats["probe:fault_in_set"] += 1
        if "union" in inner or "xor" in inner:
            res.stats["probe:fault_in_union"] += 1
        if "dc" in inner:
            res.stats["probe:fault_in_nested_dc"] += 1
    if sites:
        shape = plan.get("type") or [f["type"] for f in plan["fields"]]
        res.nontrivial = kernel.digest_of([api, shape, sites, sorted(plan["faults"]["leaf"].values()),
                                           sorted(plan["faults"]["hook"]), sorted(plan["faults"]["input"]),
                                           plan["collect"], plan["eager"]])
    return res


def _control_may_reject(plan):
    """Fixed tuples generated with a wrong arity legitimately reject even without faults."""
    s = kernel.jdump(plan.get("type") or [f["type"] for f in plan["fields"]])
    v = kernel.jdump([plan["input"], plan.get("dup")])
    # arbitrary objects in the place of payloads, an unhashable or unknown discriminator: rejected without any fault too
    return '"ftup"' in s or '"$ho"' in v or '"$unhashable"' in v or '"disc"' in s or '"$hb"' in v


def _hostile_idx(v):
    if isinstance(v, dict):
        if "$b" in v:
            yield v["$b"][1]
        else:
            for x in v.values():
                yield from _hostile_idx(x)
    elif isinstance(v, list):
        for x in v:
            yield from _hostile_idx(x)


def _innermost(plan):
    """Kinds of the types that directly hold a faulted payload / a hostile scalar (fingerprint part)."""
    fl = set(int(k) for k in plan["faults"]["leaf"]) | set(int(k) for k in plan["faults"]["transient"])
    kinds = set()

    def walk(t, v, holder):
        try:
            _walk(t, v, holder)
        except (AttributeError, TypeError, KeyError, IndexError):
            kinds.add("odd_shape")      # inputs that do not have the shape of their type (by design): no finer label

    def _walk(t, v, holder):
        k = t[0]
        if isinstance(v, dict) and ("$ho" in v or "$unhashable" in v or "$hb" in v):
            kinds.add("hostile_obj")
            return
        if isinstance(v, dict) and ("$con" in v or "$conho" in v):
            kinds.add("con:" + (v.get("$con") or v.get("$conho"))[0])
            return
        if k == "disc":
            kinds.add("disc")
            return
        if isinstance(v, dict) and "$r" in v:
            if any((v["$r"] + off) in fl for off in faults.LEAF_OFFSET.values()):
                kinds.add(holder if k in ("leaf", "leaf2", "keyleaf", "hook") else k)
            return
        if isinstance(v, dict) and "$b" in v:
            if v["$b"][1] >= 0:
                kinds.add("b:" + v["$b"][0])
            return
        if v is None:
            return
        if k == "opt":
            return walk(t[1], v, holder)
        if isinstance(v, dict) and ("$fl" in v or "$set" in v):
            v = v.get("$fl") or v.get("$set") or []
        if k in ("list", "set", "fset", "tup", "cont"):
            for e in v:
                walk(t[1], e, k)
        elif k == "ftup":
            for tt, e in zip(t[1:], v):
                walk(tt, e, k)
        elif k == "dict":
            if isinstance(v, dict) and "$fd" in v:
                v = v["$fd"]
            pairs = v["$map"] if "$map" in v else list(v.items())
            for a, b in pairs:
                if isinstance(a, dict):
                    walk(t[1], a, "dict.key")
                walk(t[2], b, "dict.value")
        elif k == "dc":
            if isinstance(v, dict) and "$fd" in v:
                v = v["$fd"]
            walk(["leaf"], v.get("x"), "dc")
            walk(["list", ["hook"]], v.get("ys") or [], "dc")

    if "type" in plan:
        walk(plan["type"], plan["input"], "top")
    else:
        for f in plan["fields"]:
            if f["name"] in plan["input"]:
                walk(f["type"], plan["input"][f["name"]], "field")
    for site in plan["faults"]["hook"]:
        kinds.add("hook:" + site)
    for site in plan["faults"]["input"]:
        kinds.add("in:" + site)
    return ",".join(sorted(kinds)) or "-"


# ----------------------------------------------------------------------------- shrinking

def shrink(plan):
    from props.c11 import _shrink_value
    for sec in ("leaf", "transient", "hook", "input"):
        for k in list(plan["faults"][sec]):
            p = copy.deepcopy(plan)
            p["faults"][sec].pop(k)
            yield p
    for k, name in plan["faults"]["leaf"].items():
        if name != "ValueError":
            p = copy.deepcopy(plan)
            p["faults"]["leaf"][k] = "ValueError"
            yield p
    if plan["collect"]:
        p = copy.deepcopy(plan)
        p["collect"] = False
        yield p
    for key in ("varargs", "ret", "gen_send", "typed_extras", "forbid_extras", "cast_keys", "top_fd", "dup"):
        if plan.get(key):
            p = copy.deepcopy(plan)
            p.pop(key)
            if key in ("typed_extras", "forbid_extras"):
                p["extras"] = {}
            yield p
    if len(plan.get("varargs") or []) > 1:
        for i in range(len(plan["varargs"])):
            p = copy.deepcopy(plan)
            p["varargs"].pop(i)
            yield p
    if "fields" in plan:
        for i, f in enumerate(plan["fields"]):
            if len(plan["fields"]) > 1:
                p = copy.deepcopy(plan)
                p["fields"].pop(i)
                p["input"].pop(f["name"], None)
                yield p
        for name in list(plan["input"]):
            for y in _shrink_c04_value(plan["input"][name]):
                p = copy.deepcopy(plan)
                p["input"][name] = y
                yield p
    else:
        for y in _shrink_c04_value(plan["input"]):
            p = copy.deepcopy(plan)
            p["input"] = y
            yield p


def _shrink_c04_value(v):
    if isinstance(v, list):
        for i in range(len(v)):
            yield v[:i] + v[i + 1:]
        for i, x in enumerate(v):
            for y in _shrink_c04_value(x):
                yield v[:i] + [y] + v[i + 1:]
    elif isinstance(v, dict):
        if "$r" in v:
            return
        if "$b" in v:
            if v["$b"][1] >= 0:
                yield {"$b": [v["$b"][0], -1]}
            return
        if "$con" in v or "$conho" in v:
            return
        for key in ("$set", "$fl", "$map"):
            if key in v:
                if key == "$fl":
                    yield v["$fl"]
                for y in _shrink_c04_value(v[key]):
                    yield {key: y}
                return
        if "$fd" in v:
            yield v["$fd"]
            for y in _shrink_c04_value(v["$fd"]):
                yield {"$fd": y}
            return
        for k, x in v.items():
            for y in _shrink_c04_value(x):
                d = dict(v)
                d[k] = y
                yield d
