"""C19 -- parsing is pure: no input mutation, no shared defaults, no cross-call state.

History machine over one world (data classes and functions with mutable defaults, factories, lazily resolved
references, a second module with the same class names, function-local classes): seeded histories of parses
(valid / invalid / faulted), calls, half-consumed generators, deep mutations of earlier results, late definitions.
Oracles: P1 every caller input equals its snapshot after the call; P2 mutating one result changes no other live
result; P3 history independence -- every operation's outcome equals the outcome of the same operation executed
alone in a fresh twin world (same declarations under other names, no history).
"""
import collections
import copy
import os
import sys

if __name__ == "__main__":      # the fresh-interpreter helper (see fresh_process_outcomes)
    sys.path.insert(0, os.path.dirname(os.path.dirname(os.path.abspath(__file__))))

from sim import kernel, faults
from sim.runner import RunResult

ID = "C19"
RULE = ("plan = (world options: collect_errors, whether the class referenced by string is defined up front or by a later "
        "operation; 5-14 operations init Schema/DataClass/force_default class, call of decorated function, generator "
        "consumed k of n steps then abandoned, function-local self-referencing class, deep mutation of an earlier result, "
        "definition+use of a second module with the same class names, late definition of the referenced class; leaf "
        "faults (persistent), hook faults on default_factory and __validate__ at their n-th call); every history ends with "
        "pristine probe parses; non-trivial = a failed, faulted or abandoned operation or a result mutation precedes a "
        "compared operation on the same declaration; distinct by operation-sequence digest")
ASSUMPTIONS = [
    "twin world = the same source text under fresh class/module names in the same process (typing's alias cache keys on the spelling, so fresh names give fresh ForwardRef objects); twin runs carry the same persistent leaf faults and no hook faults",
    "an operation in which a hook fault fired is not compared with its twin (the n-th call counter is history by construction); every later operation is",
    "inputs are built fresh for every operation, so two results can only be connected through library-held state",
    "P2 compares canonical dumps of the other live results before and after a mutation; results that alias their own input are not an issue because inputs are never reused",
    "operations issued while the referenced class is still undefined are compared with a twin that also lacks it",
]
COMPONENTS = {
    "real": ["ParserField.get_default / copy_value", "ClassParser / FunctionParser per-call RuntimeContext", "Rule args parsers (fresh containers)",
             "TypeTransformer same-type shortcuts", "BaseParser.resolve_forward_refs (lazy, incl. failed first attempts)", "generator wrappers",
             "typing generic-alias cache (CPython)"],
    "stub": ["leaf converter (fault site)", "default_factory and __validate__ bodies (hook fault sites)", "function bodies (echo their arguments)"],
}
TIERS = {
    "quick": {"runs": 3000, "chunk": 50, "selftest": 48, "minimise_s": 60},
    "thorough": {"budget_s": 600, "chunk": 100, "selftest": 256, "minimise_s": 120},
}
PROBES = ["same_input_object_twice", "failed_parse_before_compare", "abandoned_generator", "result_mutated", "hook_fault_mid_parse", "other_module_same_names", "fresh_process_compared",
          "premature_use_then_define", "local_class", "default_taken", "leaf_fault"]


def source(sfx, p, with_inner=True, variant=0):
    """variant 1 = the 'other module': same class names, different fields."""
    S = "__" + sfx
    L = ["from utype import Schema, DataClass, Field, Options, Lax", "import utype",
         "from typing import List, Dict, Tuple, Set, Optional, Any, Generator, Annotated, Union, Literal, Deque, Iterator",
         "from collections import deque, defaultdict",
         "from sim.faults import Leaf, hook_point", "",
         "import enum", "class EnumOfLists(enum.Enum):", "    A = [1, 1]", "    B = [2, 2]", "",
         "def fac_list():", "    hook_point('fac_list')", "    return [7]", "",
         "TEMPLATE = {'rows': [[0]], 'meta': {'tags': []}}", "",
         "def fac_template():", "    return TEMPLATE      # a factory that hands out one shared object", ""]
    if with_inner:
        L += inner_source(sfx, variant)
    if variant == 1:
        L += [f"class A{S}(Schema):", "    n: str = 'other'", f"    inner: Optional['Inner{S}'] = None",
              f"    inners: List['Inner{S}'] = Field(default_factory=list)", ""]
        return "\n".join(L) + "\n"
    opt = "Options(collect_errors=True)" if p.get("collect") else "Options()"
    L += [f"class A{S}(Schema):", f"    __options__ = {opt}", "    n: int", "    lst: List[int] = [1]",
          "    dct: Dict[str, List[int]] = {'k': [1]}", "    tup: Tuple[List[int], ...] = ([1],)", "    st: Set[int] = {1, 2}",
          "    raw: list = []", "    anyv: Any = {'a': [0]}", "    fl: List[int] = Field(default_factory=fac_list)",
          "    lax: list = Field(max_length=Lax(2), default_factory=list)",
          "    ann: Annotated[List[int], Field(max_length=9)] = [3]",
          "    exd: int = Field(default=0, on_error='exclude', dependencies=['dep'])", "    dep: int = Field(required=False)",
          "    tpl: dict = Field(default_factory=fac_template)",
          "    cst: list = Field(const=[1, 2], required=False)",
          "    enl: list = Field(enum=EnumOfLists, required=False)",
          "    lge: list = Field(ge=Lax([0, 0]), required=False)",
          "    dq: Deque[int] = deque([1])", "    dqs: Dict[str, deque] = {'q': deque([1])}",
          "    dqn: deque = deque([[1]])", "    ddf: dict = defaultdict(list, {'k': [1]})",
          f"    inner: Optional['Inner{S}'] = None", f"    inners: List['Inner{S}'] = Field(default_factory=list)",
          "    leaf: Optional[Leaf] = None", "    def __validate__(self):", "        hook_point('validate')", ""]
    L += [f"class D{S}(DataClass):", f"    __options__ = {opt}", "    n: int", "    lst: List[int] = [1]",
          "    dct: Dict[str, List[int]] = {'k': [1]}", "    raw: list = []", "    fl: List[int] = Field(default_factory=fac_list)",
          "    dq: Deque[int] = deque([1])",
          "    exd: int = Field(default=0, on_error='exclude', dependencies=['dep'])", "    dep: int = Field(required=False)",
          "    leaf: Optional[Leaf] = None", ""]
    L += [f"class FD{S}(Schema):", "    __options__ = Options(force_default=[5])", "    a: list", "    b: list", ""]
    # a discriminated union over classes named by reference, one of which lacks the discriminator field: the declaration can
    # only be refused at the first parse -- and then at every later one
    L += [f"class Own{S}(Schema):", f"    pet: Union['Cat{S}', 'Dog{S}'] = Field(discriminator='kind', default=None)", "",
          f"class Cat{S}(Schema):", "    kind: Literal['cat'] = 'cat'", "",
          f"class Dog{S}(Schema):", "    name: str = ''", ""]
    # a class whose options apply to the classes nested in it, holding a union over a nested class
    L += [f"class NIn{S}(Schema):", "    a: int", "",
          f"class NOut{S}(Schema):", "    __options__ = Options(override=True)", f"    x: Union[NIn{S}, int]", ""]
    # defaults that are data class instances themselves (one of them immutable), alone and inside a list
    L += [f"class Frozen{S}(Schema):", "    __options__ = Options(immutable=True)", "    tags: List[int] = Field(default_factory=list)", "",
          f"class Pt{S}(DataClass):", "    tags: List[int] = Field(default_factory=list)", "",
          f"class Holder{S}(Schema):", f"    v: Frozen{S} = Frozen{S}(tags=[1])", f"    many: List[Pt{S}] = [Pt{S}(tags=[1])]", f"    one: Pt{S} = Pt{S}(tags=[2])", ""]
    # a field that is left out (at its default) under its own 'exclude' policy, and one that depends on it
    L += [f"class RX{S}(Schema):", "    dep: int = Field(default=0, on_error='exclude')", "    main: int = Field(required=False, dependencies=['dep'])", ""]
    # a class with parsing switched off: its generated __init__ still must not touch the mapping it is given
    L += ["@utype.dataclass(no_parse=True)", f"class NP{S}:", "    n: int = 0", "    secret: int = Field(default=0, no_output=True)", ""]
    # one Field object shared by two declarations whose types are named by reference (resolved at the first parse)
    L += [f"SHORT{S} = Field(max_length=3, required=False)",
          f"class LitA{S}(Schema):", f"    kind: 'KindT{S}' = SHORT{S}", "",
          f"class LitB{S}(Schema):", f"    name: 'NameT{S}' = SHORT{S}", "",
          f"KindT{S} = Literal['x']", f"NameT{S} = str", ""]
    L += ["@utype.parse", f"def f{S}(n: int, lst: List[int] = [1], dct: Dict[str, List[int]] = {{'k': [1]}}, leaf: Optional[Leaf] = None, *args: int, **kw: int):",
          "    return {'n': n, 'lst': lst, 'dct': dct, 'leaf': leaf, 'args': list(args), 'kw': kw}", ""]
    L += ["@utype.parse", f"def it{S}(xs: Optional[Iterator[int]] = None, ys: Union[Iterator[int], Iterator[str]] = ()):",
          "    return [list(xs) if xs is not None else None, list(ys)]", ""]
    L += ["@utype.parse", f"def gen{S}(n: int, acc: List[int] = [0]) -> Generator[int, None, List[int]]:",
          "    for i in range(n):", "        acc.append(i)", "        yield i", "    return acc", ""]
    L += ["@utype.parse", f"def h{S}(x: Optional['Inner{S}'] = None, n: int = 0, xs: List['Inner{S}'] = (), ann: Annotated[List[int], Field(max_length=9)] = [4]):",
          "    return [x, n, list(xs), ann]", ""]
    L += [f"def make_local{S}():", "    class Loc(Schema):", "        x: List[int] = [1]", "        me: Optional['Loc'] = None",
          "        many: List['Loc'] = Field(default_factory=list)", "    return Loc", ""]
    return "\n".join(L) + "\n"


def inner_source(sfx, variant=0):
    S = "__" + sfx
    if variant == 1:
        return [f"class Inner{S}(Schema):", "    other: str = 'o'", ""]
    return [f"class Inner{S}(Schema):", "    v: int = 0", "    tags: List[str] = Field(default_factory=list)", ""]


# ----------------------------------------------------------------------------- generation

INIT_TEMPLATES = [
    {"n": 1},
    {"n": "2", "lst": [1, "2"]},
    {"n": 3, "dct": {"a": [1], "b": ["2"]}},
    {"n": 1, "raw": [1, [2]], "anyv": {"z": [1]}},
    {"n": 1, "inner": {"v": "4", "tags": ["a"]}},
    {"n": 1, "inners": [{"v": 1}, {"tags": ["x", "y"]}]},
    {"n": 1, "tup": [[1], ["2"]], "st": [3, "4"]},
    {"n": "zz"},                                   # invalid
    {"n": 1, "lst": ["zz"]},                       # invalid nested
    {"n": 1, "inner": {"v": "zz"}},                # invalid inside the lazily resolved class
    {"lst": [1]},                                  # missing required
    {"n": 1, "leaf": {"$r": 0}},                   # pid filled in
    {"n": 1, "inners": [{"v": 1}], "leaf": {"$r": 0}},
    {"n": 1, "lax": [1, [2], 3, 4]},                       # longer than the lax bound: truncated in the result only
    {"n": 1, "lax": [[1]], "tpl": {"rows": [[5]]}},
    {"n": 1, "raw": "[1, [2], {\"k\": [3]}]"},           # JSON text for a bare list
    {"n": 2, "dct": "{\"a\": [1], \"b\": [2]}", "raw": "[[1]]"},
    {"n": 2, "raw": "[1, [2], {\"k\": [3]}]", "anyv": [1]},
    {"n": 1, "exd": "zz"},                                  # excluded, so its dependency is not demanded
    {"n": 1, "exd": 5},                                     # kept: the dependency is missing
    {"n": 1, "exd": 5, "dep": 1},
    {"n": 1, "ann": [1, "2"]},
    {"n": 1, "lst": [], "dct": {"g": []}, "ann": []},       # empty containers that already have the declared type
    {"n": 1, "lst": [], "inners": [], "tup": [[]]},
    {"n": 1, "cst": [1, 2]},                                # a constant that is a mutable value
    {"n": 2, "cst": [1, 2], "lst": [3]},
    {"n": 1, "cst": [1, 2, 99]},                            # not the constant
    {"n": 1, "enl": [1, 1]},                                # a member of an Enum whose values are mutable
    {"n": 2, "enl": [2, 2], "lst": [4]},
    {"n": 1, "lge": [-1]},                                  # below a lax bound: the bound is the result
    {"n": 2, "lge": [-5, 3], "lst": [1]},
    {"n": 1, "lge": [1, 1]},
    {"n": 1, "dq": [1, "2"]},                               # a deque is a mutable container like a list
]
D_TEMPLATES = [{"n": 1, "lst": [], "dct": {"g": []}}, {"n": 1}, {"n": "2", "lst": ["3"]}, {"n": 1, "dct": {"q": [1]}}, {"n": "zz"}, {"n": 1, "raw": [[1]]},
               {"n": 1, "leaf": {"$r": 0}}, {}, {"n": 1, "exd": "zz"}, {"n": 1, "exd": 5}, {"n": 1, "exd": 6, "dep": 2}]
H_TEMPLATES = [{"n": 1, "xs": [], "ann": []}, {"n": 1}, {"n": "2", "x": {"v": "3"}}, {"xs": [{"v": 1}, {"tags": ["a"]}]}, {"n": 1, "ann": [7]}, {"x": {"v": "zz"}}, {}]
F_TEMPLATES = [
    {"args": [1], "kw": {}}, {"args": ["2", [3]], "kw": {}}, {"args": [1], "kw": {"dct": {"z": ["1"]}}},
    {"args": [1, [1], {"k": [2]}, None, 5, "6"], "kw": {"x": "7"}}, {"args": ["zz"], "kw": {}}, {"args": [], "kw": {}},
    {"args": [1], "kw": {"leaf": {"$r": 0}}}, {"args": [1], "kw": {"lst": ["zz"]}},
    {"args": [1, []], "kw": {}}, {"args": [1], "kw": {"lst": [], "dct": {"g": []}}},
]
LOCAL_TEMPLATES = [{"x": [], "many": []}, {}, {"x": ["2"]}, {"me": {"x": [3]}}, {"many": [{"me": {}}]}, {"x": "zz"}, {"me": {"x": ["zz"]}}]


def generate(rng, tier):
    p = {"collect": rng.random() < 0.3, "inner_late": rng.random() < 0.3}
    plan = {"prop": ID, "params": p}
    nops = rng.choice([5, 7, 9, 12, 14]) if tier == "quick" else rng.choice([7, 10, 14, 18])
    ops = []
    pid = [1]

    def fill(t):
        t = copy.deepcopy(t)

        def rec(x):
            if isinstance(x, dict):
                if "$r" in x:
                    x["$r"] = pid[0]
                    pid[0] += 1
                else:
                    for v in x.values():
                        rec(v)
            elif isinstance(x, list):
                for v in x:
                    rec(v)
        rec(t)
        return t
    defined = not p["inner_late"]
    for i in range(nops):
        r = rng.random()
        if not defined and (r < 0.2 or i == nops - 2):
            ops.append({"op": "define_inner"})
            defined = True
        elif r < 0.4:
            cls = "A" if r < 0.3 else "D"
            # the very same input object handed to a second parse (fields of a bare list / dict / Any type keep the
            # caller's object by design, so such inputs are left out)
            earlier = [m for m, o in enumerate(ops) if o["op"] == "init" and o["cls"] == cls and "same_as" not in o
                       and not set(o["data"]) & {"raw", "anyv", "tpl", "lax", "leaf", "cst", "enl", "lge", "dqn", "ddf"}]
            if earlier and rng.random() < 0.25:
                m = rng.choice(earlier)
                ops.append({"op": "init", "cls": cls, "data": copy.deepcopy(ops[m]["data"]), "same_as": m})
            else:
                ops.append({"op": "init", "cls": cls, "data": fill(rng.choice(INIT_TEMPLATES if cls == "A" else D_TEMPLATES))})
        elif r < 0.405:
            # parse, then assign to the nested instance: equal parsed instances take the same assignment alike
            ops.append({"op": "nested_assign", "value": rng.choice(["2", 3, "zz"])})
        elif r < 0.408:
            ops.append({"op": "iter_arg", "param": rng.choice(["xs", "ys"]), "items": rng.choice([["1", "2", "3"], [1, 2], ["1", "zz"], [], [1, "2"]])})
        elif r < 0.41:
            # an instance made by __from__, initialised again after an initialisation that was refused
            ops.append(rng.choice([{"op": "reinit", "cls": "RX", "good": {"dep": 1, "main": 2}}, {"op": "reinit", "cls": "RX", "good": {"main": 2}}]) if rng.random() < 0.4 else
                       {"op": "reinit", "cls": "NIn", "bad": rng.choice(["zz", None, [1]]), "good": rng.choice([2, "3"])})
        elif r < 0.42:
            ops.append({"op": "init", "cls": "Own", "data": rng.choice([{"pet": {"kind": "cat"}}, {}, {"pet": {"name": "rex"}}])})
        elif r < 0.427:
            ops.append({"op": "init", "cls": "Holder", "data": rng.choice([{}, {}, {"one": {"tags": [5]}}])})
        elif r < 0.435:
            ops.append(rng.choice([{"op": "init", "cls": "LitA", "data": {"kind": "x"}}, {"op": "init", "cls": "LitB", "data": {"name": "abc"}},
                                   {"op": "init", "cls": "LitB", "data": {"name": "abcd"}}, {"op": "init", "cls": "LitA", "data": {"kind": "y"}}]))
        elif r < 0.45:
            ops.append({"op": "init", "cls": "FD", "data": rng.choice([{}, {"a": [1]}, {"a": "zz", "b": [2]}])})
        elif r < 0.5:
            # a positional mapping together with keyword arguments: Cls(data, **more)
            d = fill(rng.choice(INIT_TEMPLATES[:7]))
            more = {}
            for key in list(d):
                if key != "n" and rng.random() < 0.5:
                    more[key] = d.pop(key)
            if rng.random() < 0.5:
                more["lst"] = rng.choice([[5], ["6"], ["zz"]])
            ops.append({"op": "init_pos", "cls": rng.choice(["A", "D"]), "data": d, "more": more})
            if rng.random() < 0.3:
                ops.append({"op": "init_pos", "cls": "NP", "data": {"n": rng.choice([1, 2]), "secret": 3}, "more": rng.choice([{}, {}, {"n": 4}])})
        elif r < 0.56:
            ops.append({"op": "call", **fill(rng.choice(F_TEMPLATES))})
        elif r < 0.6:
            ops.append({"op": "call_h", "kw": copy.deepcopy(rng.choice(H_TEMPLATES))})
        elif r < 0.7:
            n = rng.choice([2, 3, 4])
            ops.append({"op": "gen", "n": rng.choice([n, str(n), "zz"]), "take": rng.randint(0, n + 1), "acc": rng.choice([None, None, [5], ["6"]])})
        elif r < 0.78:
            ops.append({"op": "local", "data": rng.choice(LOCAL_TEMPLATES)})
        elif r < 0.93:
            ops.append({"op": "mutate", "target": rng.randrange(0, 8), "slot": rng.randrange(0, 30), "how": rng.choice(["append", "append", "clear", "setkey", "all", "all"])})
        else:
            ops.append({"op": "other_module", "data": rng.choice([{"n": "x"}, {"inner": {"other": "p"}}, {"inners": [{"other": "q"}]}])})
    plan["ops"] = ops
    fl = {}
    for q in range(1, pid[0]):
        if rng.random() < 0.3:
            fl[str(q)] = rng.choice(["ValueError", "TypeError", "OSError", "KeyError"])
    plan["faults"] = {"leaf": fl}
    hk = {}
    if rng.random() < 0.3:
        hk["fac_list"] = {str(rng.choice([1, 2, 3, 4])): rng.choice(["ValueError", "OSError", "SimFault"])}
    if rng.random() < 0.25:
        hk["validate"] = {str(rng.choice([1, 2, 3])): rng.choice(["ValueError", "OSError", "SimFault"])}
    if hk:
        plan["faults"]["hook"] = hk
    # a sample of the runs asks a FRESH INTERPRETER for the outcomes of the pristine probes: twin worlds share the
    # process with the history, so state that the library keeps in module or class attributes would fool them both
    plan["fresh_process"] = rng.random() < (0.03 if tier == "quick" else 0.05)
    return plan


# ----------------------------------------------------------------------------- execution

def _val(v):
    if isinstance(v, dict):
        if "$r" in v:
            return faults.Raw(v["$r"])
        return {k: _val(x) for k, x in v.items()}
    if isinstance(v, list):
        return [_val(x) for x in v]
    return v


class World:
    def __init__(self, p, tag, with_inner):
        self.sfx = kernel.new_suffix()
        self.S = "__" + self.sfx
        self.p = p
        self.mod = kernel.make_module(f"verif_c19_{tag}_{self.sfx}", source(self.sfx, p, with_inner=with_inner))
        self.other = None

    def define_inner(self):
        kernel.exec_into(self.mod, "\n".join(inner_source(self.sfx)) + "\n")

    def get(self, name):
        return getattr(self.mod, name + self.S)

    def define_other(self):
        if self.other is None:
            self.other = kernel.make_module(f"verif_c19_other_{self.sfx}", source(self.sfx, self.p, with_inner=True, variant=1))
        return self.other


def _mutables(x, out, depth=0):
    """Mutable containers reachable from a result, in deterministic traversal order."""
    if depth > 6:
        return
    from utype import Schema
    if isinstance(x, Schema):
        for k in list(dict.keys(x)):
            _mutables(dict.__getitem__(x, k), out, depth + 1)
        return
    if isinstance(x, dict):
        out.append(x)
        for v in list(x.values()):
            _mutables(v, out, depth + 1)
    elif isinstance(x, list):
        out.append(x)
        for v in list(x):
            _mutables(v, out, depth + 1)
    elif isinstance(x, set):
        out.append(x)
    elif isinstance(x, collections.deque):
        out.append(x)
        for v in list(x):
            _mutables(v, out, depth + 1)
    elif isinstance(x, tuple):
        for v in x:
            _mutables(v, out, depth + 1)
    elif hasattr(x, "__dict__") and hasattr(type(x), "__parser__"):
        for k, v in list(x.__dict__.items()):
            if k != "__context__":
                _mutables(v, out, depth + 1)


def _outcome(fn):
    from utype.utils.exceptions import ParseError
    try:
        v = fn()
    except ParseError as e:
        items = sorted(str(getattr(x, "item", None)) for x in getattr(e, "errors", None) or [e])
        return None, ["exc", "ParseError", items]
    except Exception as e:  # noqa
        return None, ["exc", type(e).__name__, kernel.clean_text(e, 80)]
    return v, ["ok", kernel.canon_mapping_unordered(kernel.canon(v))]


def _pos_inputs(op):
    data = _val(op["data"])
    more = _val(op["more"])
    if op["cls"] == "NP":
        return data, more
    if op["cls"] == "D":    # the smaller class declares fewer fields
        keep = ("n", "lst", "dct", "raw", "fl", "leaf")
        more = {key: x for key, x in more.items() if key in keep}
        data = {key: x for key, x in data.items() if key in keep}
    return data, more


def run_op(world, op, inputs_out=None, prebuilt=None):
    """Returns (value or None, outcome). inputs_out collects the caller-side input objects."""
    k = op["op"]
    if k == "init":
        data = _val(op["data"]) if prebuilt is None else prebuilt
        if inputs_out is not None:
            inputs_out.append(data)
        cls = world.get(op["cls"])
        if op["cls"] == "D":
            return _outcome(lambda: cls(**data))
        return _outcome(lambda: cls.__from__(data))
    if k == "init_pos":
        data, more = _pos_inputs(op)
        if inputs_out is not None:
            inputs_out.append(data)
            inputs_out.append(more)
        cls = world.get(op["cls"])
        return _outcome(lambda: cls(data, **more))
    if k == "call":
        args = _val(op["args"])
        kw = _val(op["kw"])
        if inputs_out is not None:
            inputs_out.append(args)
            inputs_out.append(kw)
        f = world.get("f")
        return _outcome(lambda: f(*args, **kw))
    if k == "call_h":
        kw = _val(op["kw"])
        if inputs_out is not None:
            inputs_out.append(kw)
        h = world.get("h")
        return _outcome(lambda: h(**kw))
    if k == "gen":
        g = world.get("gen")
        acc = _val(op["acc"])
        if inputs_out is not None and acc is not None:
            inputs_out.append(acc)

        def drive():
            it = g(op["n"]) if acc is None else g(op["n"], acc)
            got = []
            ret = "<abandoned>"
            for _ in range(op["take"]):
                try:
                    got.append(next(it))
                except StopIteration as e:
                    ret = e.value
                    break
            del it    # abandoned half-way (reference dropped: finalised at once, the cyclic GC is off)
            return {"yielded": got, "returned": ret}
        return _outcome(drive)
    if k == "local":
        data = _val(op["data"])
        if inputs_out is not None:
            inputs_out.append(data)
        mk = world.get("make_local")
        return _outcome(lambda: mk().__from__(data))
    if k == "nested_assign":
        cls = world.get("NOut")

        def both():
            outs = []
            for first in (1, "1"):       # two spellings of one value: the parsed instances are equal
                inst = cls(x={"a": first})

                def assign(nested=inst.x):
                    nested.a = op["value"]
                    return nested
                outs.append(_outcome(assign)[1])
            if outs[0] != outs[1]:
                raise AssertionError(f"equal nested instances took the assignment differently: {outs[0]} vs {outs[1]}")
            return kernel.jdump(outs[0])
        return _outcome(both)
    if k == "iter_arg":
        f = world.get("it")

        def both():
            # a one-shot iterator is consumed by any parse, but it gives what the same items in a list give
            a = _outcome(lambda: f(**{op["param"]: iter(list(op["items"]))}))[1]
            b = _outcome(lambda: f(**{op["param"]: list(op["items"])}))[1]
            if a != b:
                raise AssertionError(f"the items given as a one-shot iterator give {a}, given as a list {b}")
            return kernel.jdump(a)
        return _outcome(both)
    if k == "reinit":
        cls = world.get(op["cls"])

        def both():
            def second(after_failed):
                if op["cls"] == "RX":
                    # the earlier initialisation was accepted, but left a field out under its 'exclude' policy
                    inst = cls.__from__({"dep": "zz"} if after_failed else {"dep": 1})
                    return _outcome(lambda: [inst.__init__(**op["good"]), inst][1])[1]
                inst = cls.__from__({"a": 1})
                if after_failed:
                    _outcome(lambda: inst.__init__(a=op["bad"]))
                return _outcome(lambda: [inst.__init__(a=op["good"]), inst][1])[1]
            a, b = second(True), second(False)
            if a != b:
                raise AssertionError(f"initialisation of an instance made by __from__ gives {a} after a refused one (or one that left a field out), {b} without")
            return kernel.jdump(a)
        return _outcome(both)
    if k == "other_module":
        data = _val(op["data"])

        def use():
            m = world.define_other()
            return getattr(m, "A" + world.S).__from__(data)
        return _outcome(use)
    raise ValueError(k)


def execute(plan):
    res = RunResult()
    kernel.reset_world()
    faults.register_leaves()
    p = plan["params"]
    defined = not p["inner_late"]
    main = World(p, "main", with_inner=defined)
    faults.set_plan(plan["faults"])
    leaf_only = {"leaf": plan["faults"].get("leaf", {})}
    results = []      # (op index, value)
    dirty = False     # something happened that a later comparison is meant to be immune to
    ops = list(plan["ops"])
    # pristine probes at the end of every history
    tail = [{"op": "init", "cls": "A", "data": {"n": 1}}, {"op": "init", "cls": "D", "data": {"n": 1}},
            {"op": "call", "args": [1], "kw": {}}, {"op": "gen", "n": 2, "take": 3, "acc": None},
            {"op": "init", "cls": "FD", "data": {}}, {"op": "init", "cls": "A", "data": {"n": 2, "inner": {"v": 1}, "inners": [{"v": 2}]}},
            {"op": "local", "data": {"me": {}}}, {"op": "call_h", "kw": {"n": 1}}, {"op": "call_h", "kw": {"x": {"v": 1}, "xs": [{"v": 2}]}},
            {"op": "init", "cls": "D", "data": {"n": 1, "exd": 5}}, {"op": "init", "cls": "A", "data": {"n": 1, "exd": 5}}]
    n_user = len(ops)
    tail_out = {}
    kept_inputs = {}
    for n, op in enumerate(ops + tail):
        k = op["op"]
        is_tail = n >= n_user
        if k == "define_inner":
            if not defined:
                main.define_inner()
                defined = True
                res.stats["probe:premature_use_then_define"] += 1 if dirty else 0
            res.ev(n, k)
            continue
        if k == "mutate":
            live = [v for _i, v in results if v is not None]
            if not live:
                res.ev(n, k, "no-target")
                continue
            tgt = live[op["target"] % len(live)]
            slots = []
            _mutables(tgt, slots)
            if not slots:
                res.ev(n, k, "no-slot")
                continue
            slot = slots[op["slot"] % len(slots)]
            others = [(i, v) for i, v in results if v is not None and v is not tgt]
            before = [kernel.jdump(kernel.canon(v)) for _i, v in others]
            how = op["how"]
            # "all": every mutable container reachable from the result is changed (whatever is shared with anything shows)
            for slot in (slots if how == "all" else [slot]):
                if isinstance(slot, list):
                    if how == "clear":
                        del slot[:]
                    else:
                        slot.append(99)
                elif isinstance(slot, dict):
                    if how == "clear":
                        dict.clear(slot)
                    else:
                        dict.__setitem__(slot, "mut", [99])
                elif isinstance(slot, set):
                    slot.add(99)
                elif isinstance(slot, collections.deque):
                    if how == "clear":
                        slot.clear()
                    else:
                        slot.append(99)
            res.stats["probe:result_mutated"] += 1
            dirty = True
            after = [kernel.jdump(kernel.canon(v)) for _i, v in others]
            for (i, _v), b, a in zip(others, before, after):
                if a != b:
                    res.violate(f"C19|P2|{ops[i]['op'] if i < n_user else 'probe'}|{type(slot).__name__}",
                                f"mutating a {type(slot).__name__} inside the result of op #{[j for j, v in results if v is tgt][0]} changed the result of op #{i}: {b[:140]} -> {a[:140]}")
            res.ev(n, k, type(slot).__name__)
            continue
        # ---- a parse / call ----
        inputs = []
        fired0 = dict(faults.STATE.fired)
        # build inputs first to snapshot them: run_op builds them, so snapshot inside via a pre-pass
        snap_op = copy.deepcopy(op)
        prebuilt = kept_inputs.get(op.get("same_as")) if k == "init" else None
        if prebuilt is not None:
            res.stats["probe:same_input_object_twice"] += 1
        val, out = run_op(main, op, inputs_out=inputs, prebuilt=prebuilt)
        if k == "nested_assign" and out[:2] == ["exc", "AssertionError"]:
            # P4: the outcome of the assignment is a function of declaration, options and the (equal) data
            res.violate("C19|P4|nested_assign|equal_instances_take_assignment_differently", f"op #{n} {op}: {out[2]}")
        if k == "init" and op.get("cls") == "Holder" and out[0] == "exc" and out[1] != "ParseError":
            res.violate("C19|P2|init:Holder|default_cannot_be_copied", f"op #{n} {op}: a declared default (a data class instance) makes the instantiation fail: {out}")
        if k == "iter_arg" and out[:2] == ["exc", "AssertionError"]:
            res.violate("C19|P5|iter_arg|items_lost_to_failed_trial_passes", f"op #{n} {op}: {out[2]}")
        if k == "reinit" and out[:2] == ["exc", "AssertionError"]:
            res.violate("C19|P4|reinit|refused_initialisation_changes_the_next", f"op #{n} {op}: {out[2]}")
        if k == "init" and inputs:
            kept_inputs[n] = inputs[0]
        hook_fired = faults.STATE.fired.get("hook_fail", 0) - fired0.get("hook_fail", 0)
        leaf_fired = faults.STATE.fired.get("leaf_fail", 0) - fired0.get("leaf_fail", 0)
        if hook_fired:
            res.stats["fault:hook_fail"] += hook_fired
            res.stats["probe:hook_fault_mid_parse"] += 1
        if leaf_fired:
            res.stats["fault:leaf_fail"] += leaf_fired
            res.stats["probe:leaf_fault"] += 1
        res.stats["op:" + k] += 1
        if is_tail and not hook_fired:
            tail_out[n - n_user] = out
        results.append((n, val))
        if len(results) > 8:
            results.pop(0)
        # P1: inputs unchanged (compare with a freshly built copy of the same plan values)
        fresh_inputs = []
        if k == "init_pos":
            fresh_inputs = list(_pos_inputs(snap_op))
        if k == "init" or k == "local":
            fresh_inputs = [_val(snap_op["data"])]
        elif k == "call":
            fresh_inputs = [_val(snap_op["args"]), _val(snap_op["kw"])]
        elif k == "call_h":
            fresh_inputs = [_val(snap_op["kw"])]
        elif k == "gen" and snap_op["acc"] is not None:
            fresh_inputs = [_val(snap_op["acc"])]
        for given, fresh in zip(inputs, fresh_inputs):
            # generators legitimately work on their own (converted) argument; the caller's list must stay as given
            if kernel.jdump(kernel.canon(given)) != kernel.jdump(kernel.canon(fresh)):
                res.violate(f"C19|P1|{k}|{op.get('cls', '-')}",
                            f"op #{n} {op} modified the caller's input: {kernel.jdump(kernel.canon(fresh))[:150]} -> {kernel.jdump(kernel.canon(given))[:150]}")
        # P3: the same operation alone in a fresh twin world
        if hook_fired:
            res.ev(n, k, out, "not-compared(hook fault)")
            dirty = True
        else:
            saved = faults.STATE
            faults.STATE = faults.State()
            faults.set_plan(leaf_only)
            twin = World(p, "twin", with_inner=defined)
            _tv, tout = run_op(twin, op)
            faults.STATE = saved
            res.ev(n, k, out)
            if tout != out:
                kind = "value" if (out[0] == "ok" and tout[0] == "ok") else f"{out[0]}:{out[1] if out[0] == 'exc' else ''}_vs_{tout[0]}:{tout[1] if tout[0] == 'exc' else ''}"
                res.violate(f"C19|P3|{k}:{op.get('cls', '-')}|{'probe' if is_tail else 'op'}|{kind}",
                            f"op #{n} {op} gave {kernel.jdump(out)[:220]} after this history but {kernel.jdump(tout)[:220]} when run alone in a fresh world")
            elif dirty and not is_tail:
                res.nontrivial = True
        if out[0] == "exc":
            dirty = True
            res.stats["probe:failed_parse_before_compare"] += 1
        if k == "gen" and isinstance(val, dict) and val.get("returned") == "<abandoned>":
            dirty = True
            res.stats["probe:abandoned_generator"] += 1
        if k == "other_module":
            dirty = True
            res.stats["probe:other_module_same_names"] += 1
        if k == "local":
            res.stats["probe:local_class"] += 1
        if k in ("init", "init_pos", "call") and out[0] == "ok":
            res.stats["probe:default_taken"] += 1
        if res.violations:
            break
    res.tail_out = tail_out
    if plan.get("fresh_process") and not res.violations:
        # the history itself is replayed in a fresh interpreter too, so that what is compared is a function of this plan
        # alone (this worker process has executed other plans before)
        p2 = dict(plan)
        p2["fresh_process"] = False
        hist = fresh_process_outcomes({"mode": "history", "plan": p2})
        fresh = fresh_process_outcomes({"params": p, "defined": defined, "faults": leaf_only, "ops": tail})
        res.stats["probe:fresh_process_compared"] += 1
        for i, (op, want) in enumerate(zip(tail, fresh)):
            got = hist.get(str(i))
            if got is not None and want is not None and got != want:
                res.violate(f"C19|P3|{op['op']}:{op.get('cls', '-')}|fresh-process|{'value' if got[0] == want[0] else got[0] + '_vs_' + want[0]}",
                            f"probe {op} gave {kernel.jdump(got)[:200]} after this history (history and probe in one fresh interpreter) but {kernel.jdump(want)[:200]} alone in another fresh interpreter")
                break
    if res.nontrivial:
        res.nontrivial = kernel.digest_of([plan["params"], [[o["op"], o.get("cls"), o.get("data"), o.get("args")] for o in plan["ops"]],
                                           sorted((plan["faults"].get("hook") or {}).items())])
    return res


def fresh_process_outcomes(job):
    """Outcomes of the given operations, each alone in a fresh world, computed by a fresh interpreter."""
    import json
    import os
    import subprocess
    import sys
    env = dict(os.environ)
    env["PYTHONHASHSEED"] = "0"
    env["PYTHONDONTWRITEBYTECODE"] = "1"
    pr = subprocess.run([sys.executable, os.path.abspath(__file__)], input=json.dumps(job), capture_output=True, text=True,
                        env=env, cwd=kernel.VERIF, timeout=300)
    if pr.returncode != 0:
        raise kernel.HarnessError(f"C19 fresh-process helper failed: {pr.stdout[-500:]}{pr.stderr[-1500:]}")
    return json.loads(pr.stdout.strip().splitlines()[-1])


def _fresh_main():
    import json
    import sys
    job = json.loads(sys.stdin.read())
    kernel.bootstrap()
    if job.get("mode") == "history":
        r = execute(job["plan"])
        print(json.dumps({str(k): json.loads(kernel.jdump(v)) for k, v in r.tail_out.items()}))
        return
    kernel.reset_world()
    faults.register_leaves()
    faults.set_plan(job["faults"])
    outs = []
    for op in job["ops"]:
        w = World(job["params"], "fresh", with_inner=job["defined"])
        _v, out = run_op(w, op)
        outs.append(json.loads(kernel.jdump(out)))
    print(json.dumps(outs))


# ----------------------------------------------------------------------------- shrinking

def shrink(plan):
    for i in range(len(plan["ops"]) - 1, -1, -1):
        p = copy.deepcopy(plan)
        p["ops"].pop(i)
        for o in p["ops"]:
            if o.get("same_as") == i:
                o.pop("same_as")
            elif o.get("same_as", -1) > i:
                o["same_as"] -= 1
        yield p
    shared = {o["same_as"] for o in plan["ops"] if "same_as" in o}
    for sect in ("leaf", "hook"):
        for k in list((plan["faults"].get(sect) or {})):
            p = copy.deepcopy(plan)
            p["faults"][sect].pop(k)
            yield p
    for k in ("collect", "inner_late"):
        if plan["params"].get(k):
            p = copy.deepcopy(plan)
            p["params"][k] = False
            p["ops"] = [o for o in p["ops"] if o["op"] != "define_inner"] if k == "inner_late" else p["ops"]
            yield p
    for i, o in enumerate(plan["ops"]):
        if o["op"] in ("init", "local", "other_module") and isinstance(o.get("data"), dict) and "same_as" not in o and i not in shared:
            for key in list(o["data"]):
                p = copy.deepcopy(plan)
                p["ops"][i]["data"].pop(key)
                yield p
        if o["op"] == "call":
            if o["kw"]:
                for key in list(o["kw"]):
                    p = copy.deepcopy(plan)
                    p["ops"][i]["kw"].pop(key)
                    yield p
            if len(o["args"]) > 1:
                p = copy.deepcopy(plan)
                p["ops"][i]["args"].pop()
                yield p


if __name__ == "__main__":
    _fresh_main()
