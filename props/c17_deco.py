"""A decorator that lives in a module of its own (C17: the names in the annotations of a function it wraps are
those of the function's module, not of this one)."""
import functools


def logged(f):
    @functools.wraps(f)
    def wrapper(*args, **kwargs):
        return f(*args, **kwargs)
    return wrapper
