"""C16 -- converter resolution is a pure function of the registrations made so far.

History machine: seeded sequences of register / resolve / convert operations on four registry flavours are
stepped in lock-step with a cache-free reference model (the statement, literally). In the threaded mode two
simulated threads issue such operations under the baton scheduler and the history must be linearizable
with respect to the same reference model.
"""
import copy
import itertools
import json

from sim import kernel, faults
from sim.runner import RunResult
from sim.threads import Scheduler

ID = "C16"
RULE = ("plan = (registry flavour: private cached TypeRegistry / private with base+default fallback / global transformer "
        "registry through register_transformer+type_transform / global encoder registry through register_encoder+JSONEncoder; "
        "4-14 operations register(classes, allow_subclasses, priority, attr, metaclass, detector[, failing]) / resolve / convert / "
        "convert through a data-class field / through List[t] or a Rule with origin t declared earlier or later / json.dumps; "
        "optionally split over 2 threads with a seeded schedule); non-trivial = a register after a resolve/convert of a type it "
        "matches, or two matching registrations with different priorities; distinct by operation-sequence digest")
ASSUMPTIONS = [
    "reference model: registrations in arrival order; resolve(t) = type's own shortcut attribute, else among registrations whose own criteria match t the highest priority, newest first; else base registry, else default",
    "a detector raising TypeError/ValueError means 'does not match' (as the library specifies); other exceptions propagate and leave the registry unchanged",
    "every converter is a distinct tagged stub, so each conversion is attributable to exactly one registration",
    "threaded mode: <= 6 operations, all real-time-consistent sequential orders of the reference model are tried",
]
COMPONENTS = {
    "real": ["TypeRegistry.register/resolve/_cache", "TypeTransformer.registry + __call__/apply", "encoder_registry + JSONEncoder.default",
             "Rule.__init_subclass__ transformer capture", "ParserField.parse_value", "Schema init"],
    "stub": ["tagged converter/encoder functions", "class hierarchy", "reference registry model", "OS scheduler (threaded mode)"],
}
TIERS = {
    "quick": {"runs": 150000, "chunk": 250, "selftest": 64, "minimise_s": 30},
    "thorough": {"budget_s": 600, "chunk": 300, "selftest": 512, "minimise_s": 90},
}
PROBES = ["profiled_write_cut", "register_after_resolve", "priority_conflict", "priority_zero_after_positive", "detector_fault", "converter_fault",
          "base_fallback", "shortcut_attr", "threaded_run", "register_during_resolve_scan"]

CLASSES = ["Base", "Mid", "Low", "Other", "WithMeta", "Marked", "MarkedF", "Virt", "Short"]


def make_hierarchy():
    import abc
    import typing

    class Tagged:
        def __init__(self, tag, v=None):
            self.tag, self.v = tag, v

        def __canon__(self):
            return ["Tagged", self.tag]

    class Base:
        def __init__(self, v=None):
            self.v = v

    class Mid(Base):
        pass

    class Low(Mid):
        pass

    class Other:
        def __init__(self, v=None):
            self.v = v

    class MetaX(type):
        pass

    class WithMeta(metaclass=MetaX):
        def __init__(self, v=None):
            self.v = v

    class MetaBase(Base, metaclass=MetaX):
        """satisfies a class criterion (Base) and a metaclass criterion (MetaX) at once"""

    class Marked(Other):
        __marker__ = True

    class MarkedF(Other):
        __marker__ = ()       # the marker attribute is there, its value is falsy

    class AbcB(abc.ABC):
        pass

    class Virt:
        def __init__(self, v=None):
            self.v = v
    AbcB.register(Virt)

    class Proto(typing.Protocol):
        """a protocol class that is not runtime-checkable: issubclass(x, Proto) raises TypeError"""
        def area(self) -> int: ...

    class ProtoImpl(Proto):
        def __init__(self, v=None):
            self.v = v

        def area(self):
            return 1

    class Short(Base):
        """carries the registries' shortcut attributes"""
    return {"Tagged": Tagged, "Base": Base, "Mid": Mid, "Low": Low, "Other": Other, "MetaX": MetaX, "WithMeta": WithMeta,
            "Marked": Marked, "MarkedF": MarkedF, "AbcB": AbcB, "Virt": Virt, "Short": Short, "MetaBase": MetaBase, "Proto": Proto, "ProtoImpl": ProtoImpl}


# ----------------------------------------------------------------------------- reference model

class RefRegistry:
    def __init__(self, H, base=None, default=None, shortcut=None):
        self.H = H
        self.regs = []      # (seq, spec, tag)
        self.base = base
        self.default = default
        self.shortcut = shortcut
        self.shortcut_tags = {}

    def matches(self, spec, t):
        H = self.H
        if spec.get("detector"):
            d = spec["detector"]
            if d["fail"] in ("TypeError", "ValueError"):
                return False
            if d["fail"]:
                raise RuntimeError("detector propagates")
            return H[t] is H[d["cls"]]
        classes = [H[c] for c in spec.get("classes", [])]
        if classes:
            if spec.get("sub", True):
                def is_sub(c, b):
                    try:
                        return issubclass(c, b)
                    except TypeError:
                        # a class that refuses the subclass test (a non-runtime protocol): the nominal relation
                        return b in getattr(c, "__mro__", ())
                if not any(is_sub(H[t], b) for b in classes):
                    return False
            elif H[t] not in classes:
                return False
        if spec.get("meta") and not isinstance(H[t], H[spec["meta"]]):
            return False
        if spec.get("attr") and not hasattr(H[t], spec["attr"]):
            return False
        return True

    def resolve(self, t):
        if self.shortcut and t in self.shortcut_tags:
            return self.shortcut_tags[t]
        best = None
        for seq, spec, tag in self.regs:
            if self.matches(spec, t):
                key = (spec.get("priority", 0), seq)
                if best is None or key > best[0]:
                    best = (key, tag)
        if best:
            return best[1]
        if self.base:
            return self.base.resolve(t)
        return self.default


# ----------------------------------------------------------------------------- generation

def gen_spec(rng):
    r = rng.random()
    spec = {"priority": rng.choice([-1, 0, 0, 0, 1, 2])}
    if r < 0.62:
        spec["classes"] = rng.sample(["Base", "Mid", "Low", "Other", "Marked", "MarkedF", "AbcB", "Virt", "WithMeta", "Proto", "ProtoImpl"], rng.choice([1, 1, 2]))
        spec["sub"] = rng.random() < 0.7
        if rng.random() < 0.12:
            spec["attr"] = "__marker__"
        if rng.random() < 0.12:
            spec["meta"] = "MetaX"      # class criterion AND metaclass criterion
    elif r < 0.72:
        spec["meta"] = "MetaX"
    elif r < 0.82:
        spec["attr"] = "__marker__"
    else:
        spec["detector"] = {"cls": rng.choice(["Base", "Mid", "Other"]), "fail": rng.choice([None, None, "TypeError", "ValueError"])}
        if rng.random() < 0.15:
            spec["detector"]["falsy"] = True
    return spec


def generate(rng, tier):
    if rng.random() < 0.01:
        # a converter registered for the built-in set types that refuses what is not a set already: inside Set[int] its
        # word stands as it does for a plain set field (declared before or after the registration)
        return {"prop": ID, "kind": "set_refusal", "flavour": "global_transformer", "declare_first": rng.random() < 0.5,
                "frozen": rng.random() < 0.5, "inputs": [rng.choice([[1, 2], ["1"], {"$set": [1, "2"]}, [], [[1]], (1,)]) for _ in range(rng.choice([1, 2, 3]))]}
    flavour = rng.choice(["private", "private_base", "global_transformer", "global_transformer", "global_encoder"])
    n = rng.choice([4, 5, 6, 8, 10, 14])
    ops = []
    tagn = 0
    declared = 0
    for _ in range(n):
        r = rng.random()
        t = rng.choice(["Base", "Mid", "Low", "Other", "Marked", "MarkedF", "Virt", "WithMeta", "Short", "MetaBase", "ProtoImpl", "ProtoImpl"])
        if r < 0.38:
            tagn += 1
            op = {"op": "register", "spec": gen_spec(rng), "tag": "c%d" % tagn}
            if rng.random() < 0.06:
                op["falsy"] = True
            if flavour == "private_base" and rng.random() < 0.3:
                op["on_base"] = True
            if rng.random() < 0.08:
                op["conv_fail"] = True
            ops.append(op)
        elif r < 0.6 or flavour.startswith("private"):
            ops.append({"op": "resolve", "t": t})
        elif flavour == "global_transformer":
            if r < 0.75:
                ops.append({"op": "convert", "t": t})
            elif r < 0.85:
                ops.append({"op": "convert_field", "t": t})
            elif r < 0.92:
                declared += 1
                ops.append({"op": "declare", "t": t, "how": rng.choice(["list", "dictkey", "dictval", "opt", "dc"]) if t in ("WithMeta", "MetaBase", "ProtoImpl") else rng.choice(["list", "rule", "dictkey", "dictval", "opt", "dc"]), "name": "D%d" % declared})
            elif declared:
                ops.append({"op": "convert_declared", "name": "D%d" % rng.randint(1, declared)})
            else:
                ops.append({"op": "convert", "t": t})
        else:
            ops.append({"op": "encode", "t": t})
    plan = {"prop": ID, "flavour": flavour, "ops": ops, "threads": None}
    p_thr = 0.15 if tier == "quick" else 0.3
    thr_ops = [o for o in ops if o["op"] in ("register", "resolve", "convert", "encode")][:6]
    if rng.random() < p_thr and flavour in ("private", "global_transformer", "global_encoder") and len(thr_ops) >= 2:
        ops = thr_ops
        for o in ops:
            o.pop("conv_fail", None)
            if o["op"] == "register" and o["spec"].get("detector"):
                o["spec"] = {"classes": ["Base"], "sub": True, "priority": o["spec"]["priority"]}
        k = rng.randint(1, max(1, len(ops) - 1)) if len(ops) > 1 else 1
        plan["ops"] = ops
        plan["threads"] = [list(range(0, k)), list(range(k, len(ops)))]
        if rng.random() < 0.5:  # interleave program order differently
            idx = list(range(len(ops)))
            rng.shuffle(idx)
            plan["threads"] = [sorted(idx[:k]), sorted(idx[k:])]
        pseed = rng.randrange(1 << 30)
        plan["schedule"] = rng.choice([
            {"kind": "targeted", "p_in": rng.choice([0.2, 0.5]), "p_out": 0.01, "seed": pseed},
            {"kind": "uniform", "p": rng.choice([0.05, 0.2]), "seed": pseed},
            {"kind": "quantum", "q": rng.choice([1, 2, 3, 5]), "seed": pseed},
            {"kind": "pct", "d": rng.choice([2, 3]), "est": 300, "seed": pseed},
        ])
        if rng.random() < 0.35:
            # the memo race needs: a lookup of K in flight, a registration for K completing, and a LATER lookup of K
            tK = rng.choice(["Base", "Mid", "Low", "Other"])
            look = {"op": rng.choice(["resolve", "resolve", "convert"]) if flavour == "global_transformer" else "resolve", "t": tK}
            tagn += 1
            reg = {"op": "register", "spec": {"classes": [tK], "sub": True, "priority": 0}, "tag": "c%d" % tagn}
            pre = [o for o in ops if o["op"] == "register"][:1]
            ops = pre + [dict(look), reg, dict(look)]
            plan["ops"] = ops
            n0 = len(pre)
            plan["threads"] = [list(range(0, n0)) + [n0, n0 + 2], [n0 + 1]]
            if rng.random() < 0.6:
                # stop the reader at one of the places where it reads the shared state, let the registration complete, go on
                plan["schedule"] = {"kind": "acuts", "cuts": [[0, rng.randint(1, 14), "R"], [1, 2, "O"]], "seed": pseed}
        writers = [t for t, idxs in enumerate(plan["threads"]) if any(ops[i]["op"] == "register" for i in idxs)]
        if writers and rng.random() < 0.3:
            # stop a registering thread just before one of its stores into the registry (which one: a fraction of the
            # stores it makes when run first and alone, profiled in a twin world), let the other thread complete m-1 whole
            # operations, let the registration finish, then the rest
            t1 = rng.choice(writers)
            plan["schedule"] = {"kind": "acuts", "frac": rng.random(), "cuts": [[t1, None, "W"], [1 - t1, rng.choice([2, 2, 3]), "O"]], "seed": pseed}
    return plan


# ----------------------------------------------------------------------------- world

class World:
    def __init__(self, plan):
        import utype
        from utype.utils.base import TypeRegistry
        from utype.utils.transform import TypeTransformer
        from utype.utils.encode import encoder_registry
        kernel.reset_world()
        self.H = H = make_hierarchy()
        self.flavour = fl = plan["flavour"]
        self.declared = {}
        self.convs = {}
        Tagged = H["Tagged"]
        if fl == "private":
            self.reg = TypeRegistry("priv", cache=True, shortcut="__short__")
            self.ref = RefRegistry(H, shortcut="__short__")
        elif fl == "private_base":
            self.base = TypeRegistry("b", cache=True)
            self.reg = TypeRegistry("priv", cache=True, base=self.base, default="DEFAULT", validator=lambda f: callable(f))
            self.refbase = RefRegistry(H)
            self.ref = RefRegistry(H, base=self.refbase, default="DEFAULT")
        elif fl == "global_transformer":
            self.reg = TypeTransformer.registry
            self.ref = RefRegistry(H, shortcut="__transformer__")
        else:
            self.reg = encoder_registry
            self.ref = RefRegistry(H, shortcut="__encoder__")
        # the Short class carries the shortcut attribute of the flavour's registry
        if self.ref.shortcut:
            sc = self.make_conv("shortcut")
            setattr(H["Short"], self.ref.shortcut, staticmethod(sc) if fl != "global_transformer" else sc)
            self.ref.shortcut_tags["Short"] = "shortcut"

    def make_conv(self, tag, fail=False, falsy=False):
        Tagged = self.H["Tagged"]
        fl = self.flavour
        if fl == "global_encoder":
            def conv(o):
                if fail:
                    raise OSError("converter fault")
                return {"tag": tag}
        else:
            def conv(transformer=None, data=None, t=None):
                if fail:
                    raise OSError("converter fault")
                return Tagged(tag, data)
        conv.tag = tag
        conv.__name__ = "conv_" + tag
        if falsy:
            # a callable object that is falsy (e.g. an empty pipeline with __len__): still the registered converter
            fn = conv

            class FalsyConv:
                def __call__(self, *a, **k):
                    return fn(*a, **k)

                def __len__(self):
                    return 0
            conv = FalsyConv()
            conv.tag = tag
            conv.__name__ = "conv_" + tag
        self.convs[tag] = conv
        return conv

    def tag_of(self, f):
        if f is None:
            return None
        if isinstance(f, str):
            return f
        return getattr(f, "tag", getattr(getattr(f, "__func__", None), "tag", "?"))

    def register(self, op, apply_ref=True):
        spec = op["spec"]
        H = self.H
        kw = {"priority": spec.get("priority", 0)}
        classes = [H[c] for c in spec.get("classes", [])]
        if "sub" in spec:
            kw["allow_subclasses"] = spec["sub"]
        if spec.get("meta"):
            kw["metaclass"] = H[spec["meta"]]
        if spec.get("attr"):
            kw["attr"] = spec["attr"]
        if spec.get("detector"):
            d = spec["detector"]
            target = H[d["cls"]]
            failname = d["fail"]

            def detector(c):
                if failname:
                    faults.STATE.fired["detector_fail"] += 1
                    raise faults.EXC_CLASSES[failname]("detector fault")
                return c is target
            if d.get("falsy"):
                # a detector that is a falsy callable object
                fn_ = detector

                class FalsyDetector:
                    def __call__(self, c):
                        return fn_(c)

                    def __len__(self):
                        return 0
                detector = FalsyDetector()
            kw["detector"] = detector
        conv = self.make_conv(op["tag"], fail=op.get("conv_fail", False), falsy=op.get("falsy", False))
        reg = self.base if op.get("on_base") else self.reg
        reg.register(*classes, **kw)(conv)

    def ref_register(self, op, seq):
        ref = self.refbase if op.get("on_base") else self.ref
        ref.regs.append((seq, op["spec"], op["tag"]))


def do_op(w, op):
    """Execute one non-register operation on the real registry; returns an outcome ('tag', x) / ('exc', name)."""
    import utype
    H = w.H
    k = op["op"]
    try:
        if k == "resolve":
            return ["tag", w.tag_of(w.reg.resolve(H[op["t"]]))]
        if k == "convert":
            r = utype.type_transform(5, H[op["t"]])
            return ["tag", getattr(r, "tag", "?")]
        if k == "convert_field":
            cls = type("Holder", (utype.Schema,), {"__annotations__": {"f": H[op["t"]]}, "__module__": "verif_c16", "__qualname__": "Holder"})
            r = cls(f=5)
            return ["tag", getattr(r["f"], "tag", "?")]
        if k == "declare":
            t = H[op["t"]]
            import typing
            if op["how"] == "list":
                w.declared[op["name"]] = ("list", utype.Rule.parse_annotation(annotation=typing.List[t]))
            elif op["how"] == "dictkey":
                w.declared[op["name"]] = ("dictkey", utype.Rule.parse_annotation(annotation=typing.Dict[t, int]))
            elif op["how"] == "dictval":
                w.declared[op["name"]] = ("dictval", utype.Rule.parse_annotation(annotation=typing.Dict[str, t]))
            elif op["how"] == "opt":
                w.declared[op["name"]] = ("opt", utype.Rule.parse_annotation(annotation=typing.Optional[t]))
            elif op["how"] == "dc":
                w.declared[op["name"]] = ("dc", type("Held_" + op["name"], (utype.Schema,), {"__annotations__": {"f": t, "fs": typing.Tuple[t, ...]}, "fs": (), "__module__": "verif_c16", "__qualname__": "Held_" + op["name"]}))
            else:
                w.declared[op["name"]] = ("rule", type("R_" + op["name"], (t, utype.Rule), {}))
            return ["declared"]
        if k == "convert_declared":
            how, T = w.declared[op["name"]]
            if how == "list":
                r = utype.type_transform([5], T)
                return ["tag", getattr(r[0], "tag", "?")]
            if how == "dictkey":
                r = utype.type_transform({5: 1}, T)
                return ["tag", getattr(list(r)[0], "tag", "?")]
            if how == "dictval":
                r = utype.type_transform({"k": 5}, T)
                return ["tag", getattr(r["k"], "tag", "?")]
            if how == "opt":
                r = utype.type_transform(5, T)
                return ["tag", getattr(r, "tag", "?")]
            if how == "dc":
                r = T(f=5, fs=[5])
                tags = {getattr(r["f"], "tag", "?"), getattr(r["fs"][0], "tag", "?")}
                return ["tag", tags.pop() if len(tags) == 1 else "mixed:" + "/".join(sorted(map(str, tags)))]
            r = T(5)
            return ["tag", getattr(r, "tag", "?")]
        if k == "encode":
            s = json.dumps({"x": H[op["t"]](1)}, cls=utype.JSONEncoder)
            return ["tag", json.loads(s)["x"]["tag"]]
    except Exception as e:  # noqa
        from utype.utils.exceptions import ParseError
        if isinstance(e, ParseError):
            org = getattr(e, "origin_exc", None)
            if isinstance(org, OSError) or "converter fault" in str(e):
                return ["exc", "converter_fault"]
            return ["exc", "ParseError"]
        if isinstance(e, OSError):
            return ["exc", "converter_fault"]
        return ["exc", type(e).__name__]
    raise ValueError(k)


def expected(w, op, declared_at, conv_fail_tags):
    """What the reference model says the operation must observe."""
    k = op["op"]
    if k == "declare":
        return ["declared"]
    if k == "convert_declared":
        t = declared_at[op["name"]]["t"]
    else:
        t = op["t"]
    try:
        tag = w.ref.resolve(t)
    except RuntimeError:
        return ["exc", "OSError"]
    if k == "resolve":
        return ["tag", tag]
    if tag is None:
        if k == "encode":
            return ["exc", "TypeError"]     # json's "not serializable"
        return ["exc", "ParseError"]        # unresolved type -> TypeMismatchError
    if tag in conv_fail_tags:
        return ["exc", "converter_fault"]
    return ["tag", tag]


def classify(w, op, exp, got, history_expect):
    """Relation of observed vs expected registration (fingerprint part)."""
    if got[0] != "tag" or exp[0] != "tag":
        return f"{got[0]}:{got[1] if len(got) > 1 else ''}_vs_{exp[0]}:{exp[1] if len(exp) > 1 else ''}" if got[0] != "tag" or exp[0] != "tag" else "?"
    if op["op"] == "convert_declared":
        return "captured-at-declaration"
    if got[1] in history_expect:
        return "stale"
    pr = {tag: (spec.get("priority", 0), seq) for seq, spec, tag in w.ref.regs}
    if hasattr(w, "refbase"):
        pr.update({tag: (spec.get("priority", 0), seq) for seq, spec, tag in w.refbase.regs})
    g, e = pr.get(got[1]), pr.get(exp[1])
    if g and e:
        if g[0] < e[0]:
            return "priority-order"
        if g[0] == e[0]:
            return "tie-order"
    return "criteria"


# ----------------------------------------------------------------------------- execution

def execute_set_refusal(plan):
    import typing
    import utype
    from utype.utils.exceptions import ParseError
    res = RunResult()
    kernel.reset_world()
    kernel.make_module("verif_c16")
    origin = frozenset if plan["frozen"] else set
    G = typing.FrozenSet[int] if plan["frozen"] else typing.Set[int]

    def declare():
        return (type("Plain", (utype.Schema,), {"__annotations__": {"s": origin}, "__module__": "verif_c16", "__qualname__": "Plain"}),
                type("Typed", (utype.Schema,), {"__annotations__": {"s": G}, "__module__": "verif_c16", "__qualname__": "Typed"}))

    def only_sets(transformer, data, t):
        if not isinstance(data, (set, frozenset)):
            raise TypeError("only sets")
        return t(data)
    if plan["declare_first"]:
        Plain, Typed = declare()
    utype.register_transformer(set, frozenset)(only_sets)
    if not plan["declare_first"]:
        Plain, Typed = declare()

    def verdict(cls, v):
        try:
            cls(s=v)
            return "accepted"
        except ParseError:
            return "refused"
        except Exception as e:  # noqa
            return "raw:" + type(e).__name__
    for n, vx in enumerate(plan["inputs"]):
        v = set(vx["$set"]) if isinstance(vx, dict) else (tuple(vx) if isinstance(vx, tuple) else vx)
        want = "accepted" if isinstance(v, (set, frozenset)) else "refused"
        got = [verdict(Plain, copy.deepcopy(v)), verdict(Typed, copy.deepcopy(v))]
        res.ev(n, "set_refusal", got)
        if got[0] != want or got[1] != want:
            res.violate(f"C16|global_transformer|set_refusal|{'declared_first' if plan['declare_first'] else 'registered_first'}|{got[0]}_{got[1]}",
                        f"a converter registered for set / frozenset accepts sets only; given {v!r}: plain {origin.__name__} field {got[0]}, {G} field {got[1]}, the registration requires {want} for both")
            break
    res.nontrivial = kernel.digest_of(["set_refusal", plan["declare_first"], plan["frozen"], plan["inputs"]])
    return res


def execute(plan):
    if plan.get("kind") == "set_refusal":
        return execute_set_refusal(plan)
    if plan.get("threads"):
        return execute_threaded(plan)
    res = RunResult()
    w = World(plan)
    kernel.make_module("verif_c16")
    declared_at = {}
    conv_fail = set()
    seen_expect = {}   # type -> set of tags that were correct answers earlier
    resolved_types = set()
    nontriv = False
    for seq, op in enumerate(plan["ops"]):
        res.stats["op:" + op["op"]] += 1
        if op["op"] == "register":
            spec = op["spec"]
            try:
                w.register(op)
                w.ref_register(op, seq)
                if op.get("conv_fail"):
                    conv_fail.add(op["tag"])
                res.ev("register", op["tag"], spec)
            except Exception as e:  # noqa
                res.ev("register", op["tag"], "raised", type(e).__name__)
                res.violate(f"C16|{plan['flavour']}|register|raised:{type(e).__name__}", f"register({spec}) raised {type(e).__name__}: {e}")
                return res
            for t in resolved_types:
                try:
                    if w.ref.matches(spec, t):
                        nontriv = True
                        res.stats["probe:register_after_resolve"] += 1
                        break
                except RuntimeError:
                    pass
            prios = {s.get("priority", 0) for _, s, _ in w.ref.regs}
            if len(prios) > 1:
                res.stats["probe:priority_conflict"] += 1
                nontriv = True
            if spec.get("priority", 0) == 0 and any(s.get("priority", 0) > 0 for _, s, _ in w.ref.regs[:-1]):
                res.stats["probe:priority_zero_after_positive"] += 1
            if op.get("on_base"):
                res.stats["probe:base_fallback"] += 1
            continue
        if op["op"] == "declare":
            declared_at[op["name"]] = {"t": op["t"], "seq": seq}
        exp = expected(w, op, declared_at, conv_fail)
        before = faults.STATE.fired.get("detector_fail", 0)
        got = do_op(w, op)
        if faults.STATE.fired.get("detector_fail", 0) > before:
            res.stats["probe:detector_fault"] += 1
            res.stats["fault:detector_fail"] += faults.STATE.fired["detector_fail"] - before
        if got == ["exc", "converter_fault"]:
            res.stats["probe:converter_fault"] += 1
            res.stats["fault:converter_fail"] += 1
        t = declared_at[op["name"]]["t"] if op["op"] == "convert_declared" else op.get("t")
        if t == "Short":
            res.stats["probe:shortcut_attr"] += 1
        res.ev(op["op"], t, got, "expected", exp)
        if got != exp:
            rel = classify(w, op, exp, got, seen_expect.get(t, set()))
            res.violate(f"C16|{plan['flavour']}|{op['op']}|{rel}",
                        f"op #{seq} {op} observed {got}, the registrations so far require {exp}")
            return res
        if t is not None and exp[0] == "tag":
            seen_expect.setdefault(t, set()).add(exp[1])
        if t is not None:
            resolved_types.add(t)
        res.states.add(kernel.digest_of([sorted((s.get("priority", 0), tag) for _, s, tag in w.ref.regs), sorted(resolved_types)]))
    if nontriv:
        res.nontrivial = kernel.digest_of([plan["flavour"], plan["ops"]])
    return res


def execute_threaded(plan):
    """Two threads share one registry; the history must be linearizable w.r.t. the reference model."""
    res = RunResult()
    res.stats["probe:threaded_run"] += 1
    w = World(plan)
    kernel.make_module("verif_c16")
    ops = plan["ops"]
    nth = len(plan["threads"])

    def mk(i):
        op = ops[i]
        if op["op"] == "register":
            return lambda: (w.register(op), ["registered"])[1]
        return lambda: do_op(w, op)
    pol = copy.deepcopy(plan["schedule"])
    if pol.get("frac") is not None:
        t1 = pol["cuts"][0][0]
        prof = Scheduler({"kind": "sequential", "order": [t1, 1 - t1], "seed": 0}, nth, budget=200_000)
        prof.run([[mk(i) for i in idxs] for idxs in plan["threads"]])
        nw = prof.hotw_points[t1]
        pol["cuts"][0][1] = 1 + int(pol["frac"] * nw) if nw else 1
        res.ev("profiled-cut", t1, nw, pol["cuts"][0][1])
        res.stats["probe:profiled_write_cut"] += 1
        w = World(plan)
        kernel.make_module("verif_c16")
    programs = [[mk(i) for i in idxs] for idxs in plan["threads"]]
    sched = Scheduler(pol, nth, budget=200_000)
    results = sched.run(programs)
    if sched.errors:
        raise kernel.HarnessError("; ".join(sched.errors))
    res.stats["vsteps"] += sched.vstep
    res.stats["fault:preemptive_switch"] += len(sched.switch_locs)
    for k, v in sched.probes.items():
        res.stats["probe:" + k] += v
    got = {}
    for t, idxs in enumerate(plan["threads"]):
        for j, i in enumerate(idxs):
            o = results[t][j]
            if o is None or o[0] == "hang":
                got[i] = ["hang"]
            elif o[0] == "exc":
                got[i] = ["exc", type(o[1]).__name__]
            else:
                got[i] = o[1]
    seqno = {}
    for n, (vstep, tid, kind, j) in enumerate(sched.events):
        seqno[(plan["threads"][tid][j], kind)] = n
    for i, op in enumerate(ops):
        res.ev("op", i, op["op"], op.get("t") or op.get("tag"), got[i])
    res.ev("segments", sched.merged_segments())
    res.recorded_segments = sched.merged_segments()
    res.interleaving = sched.interleaving_hash() if sched.switch_locs else None
    if sched.nontrivial_switches:
        res.nontrivial = res.interleaving
        res.stats["probe:register_during_resolve_scan"] += 1

    def precedes(a, b):
        ra, ib = seqno.get((a, "return")), seqno.get((b, "invoke"))
        return ra is not None and ib is not None and ra < ib

    n = len(ops)
    orders = []
    seqs = plan["threads"]

    def rec(pos, acc):
        if len(acc) == n:
            orders.append(list(acc))
            return
        for t, s in enumerate(seqs):
            if pos[t] < len(s):
                acc.append(s[pos[t]])
                pos[t] += 1
                rec(pos, acc)
                pos[t] -= 1
                acc.pop()
    rec([0] * nth, [])
    ok = False
    for order in orders:
        posn = {o: k for k, o in enumerate(order)}
        if any(precedes(a, b) and posn[a] > posn[b] for a in range(n) for b in range(n) if a != b):
            continue
        ref = RefRegistry(w.H, shortcut=w.ref.shortcut)
        ref.shortcut_tags = dict(w.ref.shortcut_tags)
        model = World.__new__(World)
        model.ref = ref
        good = True
        for k, i in enumerate(order):
            op = ops[i]
            if op["op"] == "register":
                ref.regs.append((k, op["spec"], op["tag"]))
                if got[i] != ["registered"]:
                    good = False
                    break
            else:
                if expected(model, op, {}, set()) != got[i]:
                    good = False
                    break
        if good:
            ok = True
            break
    if not ok:
        bad = next((i for i in range(n) if got[i][0] in ("exc", "hang")), None)
        kind = f"{got[bad][0]}:{got[bad][1] if len(got[bad]) > 1 else ''}" if bad is not None else "not-linearizable"
        res.violate(f"C16|{plan['flavour']}|threaded|{kind}",
                    f"history {[(i, ops[i]['op'], got[i]) for i in range(n)]} under schedule {sched.merged_segments()[:14]} "
                    f"matches no sequential order of the reference model")
    return res


# ----------------------------------------------------------------------------- shrinking

def shrink(plan):
    if plan.get("kind") == "set_refusal":
        for i in range(len(plan["inputs"])):
            if len(plan["inputs"]) > 1:
                p = copy.deepcopy(plan)
                p["inputs"].pop(i)
                yield p
        return
    if plan.get("threads"):
        if plan["schedule"]["kind"] != "segments":
            try:
                r = execute(plan)
                segs = getattr(r, "recorded_segments", None)
            except Exception:  # noqa
                segs = None
            if segs:
                p = copy.deepcopy(plan)
                p["schedule"] = {"kind": "segments", "segments": segs}
                yield p
        else:
            segs = plan["schedule"]["segments"]
            for i in range(len(segs)):
                p = copy.deepcopy(plan)
                p["schedule"]["segments"].pop(i)
                yield p
        for i in range(len(plan["ops"])):
            if len(plan["ops"]) > 1:
                p = copy.deepcopy(plan)
                p["ops"].pop(i)
                p["threads"] = [[j - (j > i) for j in th if j != i] for th in plan["threads"]]
                yield p
        return
    for i in range(len(plan["ops"])):
        p = copy.deepcopy(plan)
        dropped = p["ops"].pop(i)
        if dropped["op"] == "declare" and any(o.get("name") == dropped["name"] for o in p["ops"]):
            continue
        yield p
    for i, op in enumerate(plan["ops"]):
        if op["op"] == "register":
            spec = op["spec"]
            for key in ("attr", "meta"):
                if spec.get(key) and spec.get("classes"):
                    p = copy.deepcopy(plan)
                    p["ops"][i]["spec"].pop(key)
                    yield p
            if len(spec.get("classes", [])) > 1:
                for c in spec["classes"]:
                    p = copy.deepcopy(plan)
                    p["ops"][i]["spec"]["classes"] = [c]
                    yield p
            if spec.get("priority", 0) not in (0,):
                p = copy.deepcopy(plan)
                p["ops"][i]["spec"]["priority"] = 0
                yield p
