"""C11 -- exclude/preserve policies touch only the offending elements.

Fault kit: the set of offending elements is *injected* at the leaf-converter seam, so it is known
exactly. Oracle: a reference that applies the statement level by level (offending element ->
removed / put back raw / whole container rejected), using real utype only to convert scalar
elements alone under all-'throw' options.
"""
import copy

from sim import kernel, faults, tdsl
from sim.runner import RunResult

ID = "C11"
RULE = ("plan = (declaration kind rule/schema/dataclass/function, container type tree over harness leaf types, "
        "3 policies, input of raw payloads, injected fault set over payload ids with an exception class each); "
        "non-trivial = at least one faulted and one non-faulted element reached in the same container and the "
        "fault fired; distinct by (declaration shape, policy triple, relative fault positions, exception classes)")
ASSUMPTIONS = [
    "offending elements are exactly the payloads in the injected fault set (persistent faults); union elements offend iff every branch is faulted",
    "non-faulted conversions are the harness leaf converter (identity on payload id), so expected values need no model of utype's converters",
    "fixed-length tuples are outside the statement's list and are not generated",
    "a fault-free control execution of every plan must succeed and match, otherwise the run is a harness error",
]
COMPONENTS = {
    "real": ["utype Rule.parse/_parse_seq_args/_parse_map_args", "ParserField.parse_value", "BaseParser.parse_addition",
             "FunctionParser.parse_pos_type", "RuntimeContext", "TypeTransformer + registry", "Schema/DataClass init"],
    "stub": ["leaf converter (fault site)", "payload objects"],
}
TIERS = {
    "quick": {"runs": 30000, "chunk": 100, "selftest": 64, "minimise_s": 30},
    "thorough": {"budget_s": 600, "chunk": 400, "selftest": 512, "minimise_s": 90},
}
PROBES = ["contains_constraint", "union_of_containers", "dependency_on_excluded_field", "fixed_tuple_offending", "set_with_fault", "dict_key_fault", "required_field_excluded", "typed_addition_fault", "varargs_fault",
          "rule_leaf_fault", "length_bound_after_exclusion", "mode_required_field", "dependency_missing_for_kept_field", "excluded_field_with_dependency",
          "data_class_elements", "property_output_offending"]
POL = ["throw", "exclude", "preserve"]
FAIL = object()
SKIP = object()     # the statement does not fix the outcome (e.g. a one-of whose alternatives do not fit as they are)


# ----------------------------------------------------------------------------- generation

def generate(rng, tier):
    tdsl.UNHASHABLE_ITEMS = True
    try:
        return _generate(rng, tier)
    finally:
        tdsl.UNHASHABLE_ITEMS = False


def _generate(rng, tier):
    kind = rng.choice(["rule", "rule", "schema", "schema", "dataclass", "func"])
    pool = tdsl.PidPool()
    positions = []
    plan = {"prop": ID, "kind": kind,
            "policies": {"invalid_items": rng.choice(POL), "invalid_keys": rng.choice(POL),
                         "invalid_values": rng.choice(POL)},
            "opts_at": rng.choice(["class", "runtime"])}
    if rng.random() < 0.5:  # bias to the interesting policies
        for k in plan["policies"]:
            if rng.random() < 0.7:
                plan["policies"][k] = rng.choice(["exclude", "preserve"])
    RL = rng.random() < 0.5     # constrained (Rule) leaf types in this plan

    def maybe_opt(t_):
        # Optional[container]: the container is parsed as a branch of a union
        return ["opt", t_] if rng.random() < 0.25 else t_
    if kind == "rule":
        t = maybe_opt(tdsl.gen_container(rng, rng.choice([1, 1, 1, 2, 2, 3]), rule_leaves=RL, dc_items=True))
        if rng.random() < 0.06:
            # a list constrained by contains=List[leaf]: whether an item counts is tested on the item as it is, whatever
            # the policies say (the items themselves are not converted by 'contains')
            s1 = rng.choice(["leaf", "leaf2", "rleaf"])
            items = []
            for i in range(rng.choice([1, 2, 3])):
                sub = []
                for j in range(rng.choice([1, 2])):
                    pid = pool.next()
                    positions.append(([i, j], tdsl.RULE_ORIGIN.get(s1, s1), pid))
                    sub.append({"$r": pid})
                items.append(sub)
            plan["type"] = ["contains", ["list", [s1]]]
            plan["input"] = items
            plan["max_contains"] = rng.choice([None, None, 1])
        elif rng.random() < 0.12:
            # a union of two containers over different leaf kinds: which alternative fits must not depend on the policies.
            # (no_data_loss=True: the library then has only its strict trial pass before the pass that obeys the policies)
            s1, s2 = rng.sample(["leaf", "leaf2", "rleaf"], 2)
            cont = rng.choice(["list", "tup"])
            t = [rng.choice(["union", "union", "xor"]), [cont, [s1]], [cont, [s2]]]
            if rng.random() < 0.4:
                # the second alternative can never take this input: only the first one is in question
                t[2] = ["dict", ["keyleaf"], [s2]]
            items = []
            for i in range(rng.choice([1, 2, 2, 3])):
                pid = pool.next()
                for s_ in (s1, s2):
                    positions.append(([i], tdsl.RULE_ORIGIN.get(s_, s_), pid))
                items.append({"$r": pid})
            if rng.random() < 0.3:
                # both alternatives are mappings with convertible keys: the keys can offend as well
                t[1], t[2] = ["dict", ["keyleaf"], [s1]], ["dict", ["keyleaf"], [s2]]
                pairs = []
                for i, it in enumerate(items):
                    kp = pool.next()
                    positions.append(([i, "k"], "keyleaf", kp))
                    pairs.append([{"$r": kp}, it])
                items = {"$map": pairs}
                if rng.random() < 0.35:
                    # the first alternative is a sequence (it would take the mapping by wrapping it)
                    t[1] = [rng.choice(["list", "tup"]), [s1]]
                if rng.random() < 0.5:
                    # ... and the policy for keys is the only one that is on
                    plan["policies"] = {"invalid_items": "throw", "invalid_values": "throw", "invalid_keys": rng.choice(["exclude", "preserve"])}
            plan["type"] = t
            plan["input"] = items
            plan["ndl"] = rng.random() < 0.7
            plan["override"] = rng.random() < 0.4     # Options(override=True): the user's options win over inherited ones
        elif rng.random() < 0.1:
            # a fixed-length tuple whose surplus items are typed by Options(addition=...): only 'preserve' is judged there
            t = ["ftup"] + [tdsl.gen_scalar(rng, rule_leaves=RL) for _ in range(rng.choice([1, 2, 2, 3]))]
            plan["tup_addition"] = rng.choice(["leaf", "leaf", True, None])
            plan["type"] = t
            v = tdsl.gen_value(rng, t, pool, positions)
            v["$tuple"] += [tdsl.gen_value(rng, ["leaf"], pool, positions, ("+", j)) for j in range(rng.choice([0, 1, 2, 3]))]
            plan["input"] = v
            for k in plan["policies"]:
                if plan["policies"][k] == "exclude":
                    plan["policies"][k] = "preserve"
        else:
            plan["type"] = t
            plan["input"] = tdsl.gen_value(rng, t, pool, positions)
            if rng.random() < 0.3:
                plan["max_len"] = rng.choice([1, 2, 3])
    elif kind in ("schema", "dataclass"):
        fields = []
        inp = {}
        plan["mode"] = rng.choice([None, None, "a", "b"])
        for i in range(rng.choice([1, 2, 2, 3, 4])):
            if rng.random() < 0.08:
                # a field whose data class is chosen by a discriminator; what is offending there is the input's shape
                f = {"name": "f%d" % i, "type": ["disc"], "required": False, "default": rng.choice(["absent", "none"]),
                     "on_error": rng.choice([None, None, "exclude", "preserve", "throw"])}
                fields.append(f)
                inp[f["name"]] = rng.choice([{"kind": "a", "n": 1}, {"kind": "b", "m": "2"}, {"kind": "zz"}, 5, {"kind": "a", "n": "x"}, [1, 2],
                                             '{"kind": "a", "n": "x"}', '{"kind": "a", "n": 2}', [["kind", "b"], ["m", "x"]],
                                             [["kind", "zz"], ["m", 1]], [["n", 1]], [["kind", "a"], ["n", "3"]]])
                continue
            t = tdsl.gen_scalar(rng, rule_leaves=RL) if rng.random() < 0.55 else maybe_opt(tdsl.gen_container(rng, rng.choice([1, 1, 2]), rule_leaves=RL, dc_items=True))
            required = rng.random() < 0.5
            f = {"name": "f%d" % i, "type": t, "required": required,
                 "default": None if required else rng.choice(["absent", "none", "leaf"]),
                 "on_error": rng.choice([None, None, "exclude", "preserve", "throw"])}
            if not required and rng.random() < (0.4 if f["default"] == "absent" else 0.25):
                f["required"] = "mode"     # Field(required='a'): required only when the parse runs in mode 'a' (with or without a default)
            if f["required"] and f["on_error"] == "exclude":
                f["on_error"] = None   # rejected at declaration time by Field()
            if not tdsl.is_scalar(t) and t[0] != "opt" and rng.random() < 0.3:
                f["max_len"] = rng.choice([1, 2, 3])
            if not f["required"] and f["default"] in ("none", "leaf") and rng.random() < 0.2:
                f["defer"] = True      # Field(defer_default=True): the default is not part of the parsed result
            if rng.random() < 0.2:
                f["alias"] = "A_" + f["name"]      # Field(alias=...): the input and the key view use the alias, the attribute view the name
            fields.append(f)
            inp[f["name"]] = tdsl.gen_value(rng, t, pool, positions, (f["name"],))
        if rng.random() < 0.3:
            # a plain int field (never offending) that some other fields depend on
            plan["dep_target"] = True
            if rng.random() < 0.6:
                inp["d0"] = rng.choice([1, "2"])
            for f in fields:
                if not f["required"] and rng.random() < 0.6:
                    f["deps"] = True
        elif len(fields) >= 2 and rng.random() < 0.35:
            # a field that depends on another generated field, which may itself be offending (and so be left out)
            tgt = rng.choice(fields)
            for f in fields:
                if f is not tgt and not f["required"] and rng.random() < 0.6:
                    f["deps_on"] = tgt["name"]
        if kind == "schema" and rng.random() < 0.2:
            # a typed @property (output field): the getter hands back a payload; its setter has its own, different on_error
            pid = pool.next()
            positions.append((["pr"], "leaf", pid))
            plan["pprop"] = pid
        plan["fields"] = fields
        plan["addition"] = rng.choice([None, None, "leaf", True])
        if plan["addition"] is not None:
            for j in range(rng.choice([0, 1, 2])):
                inp["x%d" % j] = tdsl.gen_value(rng, ["leaf"], pool, positions, ("x%d" % j,))
        plan["input"] = inp
    else:
        plan["kwonly"] = rng.random() < 0.5
        plan["nargs"] = rng.choice([0, 1, 2, 3])
        # the declared types of a / *args / **kwargs: harness leaves, constrained leaves, logical combinations
        ft = {r: (tdsl.gen_scalar(rng, rule_leaves=RL) if rng.random() < 0.6 else ["leaf"]) for r in ("a", "args", "kwargs")}
        plan["ftypes"] = ft
        plan["a"] = tdsl.gen_value(rng, ft["a"], pool, positions, ("a",))
        plan["args"] = [tdsl.gen_value(rng, ft["args"], pool, positions, ("*", i)) for i in range(plan["nargs"])]
        plan["kwargs"] = {"k%d" % i: tdsl.gen_value(rng, ft["kwargs"], pool, positions, ("**", i))
                          for i in range(rng.choice([0, 1, 2]))}
        plan["opts_at"] = "class"
        if not plan["kwonly"] and rng.random() < 0.3:
            # the first parameter is given by keyword, under its alias, and depends on another (keyword-only) parameter
            plan["a_kw"] = {"alias": rng.choice([None, "Aa"]), "deps": rng.random() < 0.7, "d0": rng.choice([None, 1, "2"])}
            plan["nargs"] = 0
            plan["args"] = []
        elif not plan["kwonly"] and rng.random() < 0.3:
            # a keyword-only parameter that depends on the first one, which is given by position
            plan["d_on_a"] = rng.choice([1, "2"])
    # faults: any subset of reachable leaf positions, biased to "some but not all"
    fl = {}
    if positions:
        p = rng.choice([0.15, 0.3, 0.5, 0.8])
        for path, lk, pid in positions:
            if rng.random() < p:
                fid = faults.fault_id(faults.LEAF_TYPES[lk], pid)
                fl[str(fid)] = rng.choice(faults.EXC_NAMES)
    plan["faults"] = {"leaf": fl}
    return plan


# ----------------------------------------------------------------------------- world

def _options(plan, **extra):
    import utype
    if plan.get("ndl"):
        extra = dict(extra, no_data_loss=True)
    if plan.get("override"):
        extra = dict(extra, override=True)
    return utype.Options(**plan["policies"], **extra)


def _strict_options(**extra):
    import utype
    return utype.Options(**extra)


def build(plan, strict=False):
    """Returns a callable parse(input_value) -> result using real utype."""
    import utype
    from utype import Schema, DataClass, Field
    kind = plan["kind"]
    if kind == "rule":
        if plan["type"][0] == "contains":
            from utype import Rule
            cons = {"contains": tdsl.rule_type(plan["type"][1])}
            if plan.get("max_contains"):
                cons["max_contains"] = plan["max_contains"]
            T = Rule.annotate(list, constraints=cons)
        else:
            T = tdsl.rule_type(plan["type"])
        if plan.get("max_len"):
            from utype import Rule
            T = Rule.parse_annotation(annotation=tdsl.build_type(plan["type"]), constraints={"max_length": plan["max_len"]})
        extra = {}
        if plan.get("tup_addition") is not None:
            extra["addition"] = faults.Leaf if plan["tup_addition"] == "leaf" else plan["tup_addition"]
        if plan.get("ndl"):
            extra["no_data_loss"] = True
        opts = _strict_options(**extra) if strict else _options(plan, **{k_: v_ for k_, v_ in extra.items() if k_ != "no_data_loss"})
        return lambda v: utype.type_transform(v, T, options=opts)
    if kind in ("schema", "dataclass"):
        ns = {"__annotations__": {}, "__module__": "verif_c11", "__qualname__": "M"}
        for f in plan["fields"]:
            T = _disc_type() if f["type"] == ["disc"] else tdsl.build_type(f["type"])
            ns["__annotations__"][f["name"]] = T
            kw = {}
            if f["type"] == ["disc"]:
                kw["discriminator"] = "kind"
            if f.get("max_len"):
                kw["max_length"] = f["max_len"]
            if f["required"] == "mode":
                kw["required"] = "a"
            if not f["required"] or f["required"] == "mode":
                if f["default"] == "absent":
                    if not f["required"]:
                        kw["required"] = False
                elif f["default"] == "none":
                    kw["default"] = None
                else:
                    kw["default_factory"] = (lambda: faults.Leaf(9999))
            if f.get("defer"):
                kw["defer_default"] = True
            if f.get("deps"):
                kw["dependencies"] = ["d0"]
            if f.get("deps_on"):
                kw["dependencies"] = [f["deps_on"]]
            if f.get("alias"):
                kw["alias"] = f["alias"]
            if f["on_error"] and not strict:
                kw["on_error"] = f["on_error"]
            if kw:
                ns[f["name"]] = Field(**kw)
        if plan.get("pprop") is not None:
            ppid = plan["pprop"]

            def pr(self) -> faults.Leaf:
                return faults.Raw(ppid)
            pr.__annotations__ = {"return": faults.Leaf}

            def pr_set(self, val: int = Field(required=False, on_error="exclude")):
                pass
            pr_set.__annotations__ = {"val": int}
            ns["pr"] = property(pr, pr_set)
        if plan.get("dep_target"):
            ns["__annotations__"]["d0"] = int
            ns["d0"] = Field(required=False)
        add = plan.get("addition")
        okw = {}
        if plan.get("mode"):
            okw["mode"] = plan["mode"]
        if add is not None:
            okw["addition"] = faults.Leaf if add == "leaf" else add
        opts = _strict_options(**okw) if strict else _options(plan, **okw)
        if plan["opts_at"] == "class":
            class_opts = opts
        elif okw:
            # the policies come with the call; the class only declares what a class parser must know (typed addition, mode)
            class_opts = _strict_options(**okw)
        else:
            class_opts = None
        if class_opts is not None:
            ns["__options__"] = class_opts
        base = Schema if kind == "schema" else DataClass
        cls = type("M", (base,), ns)
        al = {f["name"]: f["alias"] for f in plan["fields"] if f.get("alias")}

        def spell(v):
            return {al.get(k, k): x for k, x in v.items()}
        if plan["opts_at"] == "class":
            return lambda v: cls(**spell(v))
        return lambda v: cls.__from__(spell(v), options=opts)
    if kind == "func":
        opts = _strict_options() if strict else _options(plan)
        got = {}
        if plan["kwonly"]:
            def f(a, *args, **kwargs):
                return (a, args, kwargs)
        else:
            def f(a=None, *args, **kwargs):
                return (a, args, kwargs)
        ft = plan.get("ftypes") or {"a": ["leaf"], "args": ["leaf"], "kwargs": ["leaf"]}
        akw = plan.get("a_kw")
        if akw:
            pk = {}
            if akw["alias"]:
                pk["alias"] = akw["alias"]
            if akw["deps"]:
                pk["dependencies"] = ["d0"]

            def f(a=utype.Param(None, **pk), *args, d0=None, **kwargs):
                return (a, args, kwargs)
        if plan.get("d_on_a") is not None:
            def f(a=None, *args, d1=utype.Param(0, dependencies=["a"]), **kwargs):
                return (a, args, kwargs)
        f.__annotations__ = {r: tdsl.build_type(ft[r]) for r in ("a", "args", "kwargs")}
        if akw:
            f.__annotations__["d0"] = int
        if plan.get("d_on_a") is not None:
            f.__annotations__["d1"] = int
        f.__module__ = "verif_c11"
        f.__qualname__ = f.__name__ = "f"
        g = utype.parse(f, options=opts, no_cache=True)
        if akw:
            extra = {} if akw["d0"] is None else {"d0": akw["d0"]}
            return lambda v: g(**{akw["alias"] or "a": v["a"]}, **extra, **v["kwargs"])
        if plan.get("d_on_a") is not None:
            return lambda v: g(v["a"], *v["args"], d1=plan["d_on_a"], **v["kwargs"])
        return lambda v: g(v["a"], *v["args"], **v["kwargs"])
    raise ValueError(kind)


# ----------------------------------------------------------------------------- reference

def _disc_type():
    from props import c10
    return c10._build_type(["disc"])


_DISC_STRICT = {}


def _disc_alone(v):
    """Strict parse of one value by a discriminated field declared like the one under test (default 'throw' policy)."""
    from utype import Schema, Field
    if "cls" not in _DISC_STRICT:
        _DISC_STRICT["cls"] = type("DiscStrict", (Schema,), {"__annotations__": {"f": _disc_type()}, "f": Field(discriminator="kind"),
                                                          "__module__": "verif_c10", "__qualname__": "DiscStrict"})
    try:
        return _DISC_STRICT["cls"].__from__({"f": v})["f"]
    except Exception:  # noqa
        return FAIL


def _scalar_alone(t, v):
    """Strict conversion of one element alone by the real library (same fault set)."""
    import utype
    if t == ["disc"]:
        return _disc_alone(v)
    T = tdsl.rule_type(t)
    try:
        return utype.type_transform(v, T, options=utype.Options())
    except Exception:  # noqa  any rejection makes the element offending
        return FAIL


_KIND_TYPE = {"list": list, "tup": tuple, "set": set, "fset": frozenset, "dict": dict}


def _same_kind(t, v):
    return t[0] in _KIND_TYPE and isinstance(v, _KIND_TYPE[t[0]])


def ref(t, v, pol):
    """The statement, level by level. v is the built python input."""
    if tdsl.is_scalar(t) or t == ["disc"]:
        return _scalar_alone(t, v)
    k = t[0]
    if k == "xor" and not tdsl.is_scalar(t):
        # exactly one alternative fits as it is: that one, whatever the policies; otherwise not judged
        strict = {"invalid_items": "throw", "invalid_keys": "throw", "invalid_values": "throw"}
        fits = [r for r in (ref(b, v, strict) for b in t[1:]) if r is not FAIL]
        if len(fits) == 1:
            return fits[0]
        if fits:
            return SKIP
        # no alternative fits as it is: like a union, the one that fits under the policies (if it is the only one);
        # only the alternatives of the value's own kind are in question when there are any
        alts = [b for b in t[1:] if _same_kind(b, v)] or t[1:]
        fits = [r for r in (ref(b, v, pol) for b in alts) if r is not FAIL]
        return fits[0] if len(fits) == 1 else (FAIL if not fits else SKIP)
    if k == "union":
        # the first alternative that fits as it is (no element offending) wins; only when none does, the policies apply -
        # first to the alternatives of the value's own kind (a sequence would take anything by wrapping it)
        strict = {"invalid_items": "throw", "invalid_keys": "throw", "invalid_values": "throw"}
        for b in t[1:]:
            r = ref(b, v, strict)
            if r is not FAIL:
                return r
        for b in sorted(t[1:], key=lambda b_: not _same_kind(b_, v)):
            r = ref(b, v, pol)
            if r is not FAIL:
                return r
        return FAIL
    if k == "opt":
        return None if v is None else ref(t[1], v, pol)
    if k in ("list", "set", "fset", "tup"):
        out = []
        if isinstance(v, dict):
            v = [v]     # (a mapping given for a sequence is one item)
        for e in v:
            r = ref(t[1], e, pol)
            if r is FAIL:
                p = pol["invalid_items"]
                if p == "exclude":
                    continue
                if p == "preserve":
                    out.append(e)
                    continue
                return FAIL
            out.append(r)
        try:
            return {"list": list, "set": set, "fset": frozenset, "tup": tuple}[k](out)
        except TypeError:
            return FAIL     # an element that is not hashable was put back into a set
    if k == "dict":
        if not isinstance(v, dict):
            return FAIL     # (a sequence of payloads is no mapping)
        out = {}
        for kk, vv in v.items():
            rk = ref(t[1], kk, pol)
            if rk is FAIL:
                p = pol["invalid_keys"]
                if p == "exclude":
                    continue
                if p == "preserve":
                    rk = kk
                else:
                    return FAIL
            rv = ref(t[2], vv, pol)
            if rv is FAIL:
                p = pol["invalid_values"]
                if p == "exclude":
                    continue
                if p == "preserve":
                    rv = vv
                else:
                    return FAIL
            out[rk] = rv
        return out
    raise ValueError(t)


def ref_plan(plan, value, pol, stats):
    kind = plan["kind"]
    if kind == "rule" and plan["type"][0] == "contains":
        strict = {"invalid_items": "throw", "invalid_keys": "throw", "invalid_values": "throw"}
        n = sum(1 for item in value if ref(plan["type"][1], item, strict) is not FAIL)
        stats["probe:contains_constraint"] += 1
        if n < 1 or (plan.get("max_contains") and n > plan["max_contains"]):
            return FAIL
        return list(value)
    if kind == "rule" and plan["type"][0] == "ftup":
        types = plan["type"][1:]
        if len(value) < len(types):
            return FAIL
        out = []
        for i, e in enumerate(value):
            if i >= len(types):
                if plan.get("tup_addition") is None:
                    break       # surplus items are dropped
                if plan["tup_addition"] is True:
                    out.append(e)
                    continue
            r = _scalar_alone(types[i] if i < len(types) else ["leaf"], e)
            if r is FAIL:
                stats["probe:fixed_tuple_offending"] += 1
                if pol["invalid_items"] == "preserve":
                    r = e
                else:
                    return FAIL
            out.append(r)
        return tuple(out)
    if kind == "rule":
        r = ref(plan["type"], value, pol)
        if r is not FAIL and r is not None and plan.get("max_len") and len(r) > plan["max_len"]:
            return FAIL     # the bound applies to what is left after the policies did their work
        return r
    if kind in ("schema", "dataclass"):
        out = {}
        left_out = set()
        kept = set()
        for f in plan["fields"]:
            name = f["name"]
            if name not in value:
                left_out.add(name)
                continue
            r = ref(f["type"], value[name], pol)
            if r is not FAIL and r is not None and f.get("max_len") and len(r) > f["max_len"]:
                r = FAIL
            excluded = False
            if r is FAIL:
                p = f["on_error"] or pol["invalid_values"]
                if p == "exclude":
                    excluded = True
                    left_out.add(name)
                    if f.get("deps"):
                        stats["probe:excluded_field_with_dependency"] += 1
                    if f["required"] is True or (f["required"] == "mode" and plan.get("mode") == "a"):
                        stats["probe:required_field_excluded"] += 1
                        return FAIL
                    if f["default"] == "absent" or f.get("defer"):
                        continue
                    r = None if f["default"] == "none" else faults.Leaf(9999)
                elif p == "preserve":
                    r = value[name]
                else:
                    return FAIL
            out[name] = r
            if not excluded:
                kept.add(name)
            if f.get("deps") and "d0" not in value and not excluded:
                # the field is kept (converted or preserved) and what it depends on is not given
                stats["probe:dependency_missing_for_kept_field"] += 1
                return FAIL
        for f in plan["fields"]:
            if f.get("deps_on") and f["name"] in kept and f["deps_on"] in left_out:
                # "the input with exactly the offending elements removed": what the kept field depends on is not there
                stats["probe:dependency_on_excluded_field"] += 1
                return FAIL
        if "d0" in value:
            out["d0"] = int(value["d0"])
        if plan.get("pprop") is not None:
            r = _scalar_alone(["leaf"], faults.Raw(plan["pprop"]))
            if r is FAIL:
                # the output field has no on_error of its own: the policy in force is the options' invalid_values
                p = pol["invalid_values"]
                stats["probe:property_output_offending"] += 1
                if p == "throw":
                    return FAIL
                if p == "preserve":
                    out["pr"] = faults.Raw(plan["pprop"])
            else:
                out["pr"] = r
        add = plan.get("addition")
        for key, v in value.items():
            if key.startswith("x"):
                if add is None:
                    continue
                if add is True:
                    out[key] = v
                    continue
                r = _scalar_alone(["leaf"], v)
                if r is FAIL:
                    stats["probe:typed_addition_fault"] += 1
                    p = pol["invalid_values"]
                    if p == "exclude":
                        continue
                    if p == "preserve":
                        r = v
                    else:
                        return FAIL
                out[key] = r
        return out
    if kind == "func":
        ft = plan.get("ftypes") or {"a": ["leaf"], "args": ["leaf"], "kwargs": ["leaf"]}
        a = _scalar_alone(ft["a"], value["a"])
        a_excluded = False
        if a is FAIL:
            p = pol["invalid_values"]
            if p == "exclude":
                if plan["kwonly"]:
                    return FAIL   # required parameter
                a = None
                a_excluded = True
            elif p == "preserve":
                a = value["a"]
            else:
                return FAIL
        args = []
        for e in value["args"]:
            r = _scalar_alone(ft["args"], e)
            if r is FAIL:
                stats["probe:varargs_fault"] += 1
                p = pol["invalid_items"]
                if p == "exclude":
                    continue
                if p == "preserve":
                    r = e
                else:
                    return FAIL
            args.append(r)
        kwargs = {}
        for key, v in value["kwargs"].items():
            r = _scalar_alone(ft["kwargs"], v)
            if r is FAIL:
                p = pol["invalid_values"]
                if p == "exclude":
                    continue
                if p == "preserve":
                    r = v
                else:
                    return FAIL
            kwargs[key] = r
        akw = plan.get("a_kw")
        if akw and akw["deps"] and not a_excluded and akw["d0"] is None:
            stats["probe:dependency_missing_for_kept_field"] += 1
            return FAIL
        if plan.get("d_on_a") is not None and a_excluded:
            # the parameter it depends on was left out: as if it had not been given
            stats["probe:dependency_on_excluded_field"] += 1
            return FAIL
        return (a, tuple(args), kwargs)


def _value_of(plan, control=False):
    if control and any(f["type"] == ["disc"] for f in plan.get("fields", [])):
        # (the inputs of discriminated fields offend by their shape, not by an injected fault: the control takes a valid one)
        v = tdsl.build_value(plan["input"])
        for f in plan["fields"]:
            if f["type"] == ["disc"] and f["name"] in v:
                v[f["name"]] = {"kind": "a", "n": 1}
        return v
    if plan["kind"] == "func":
        return {"a": tdsl.build_value(plan["a"]), "args": [tdsl.build_value(x) for x in plan["args"]],
                "kwargs": {k: tdsl.build_value(x) for k, x in plan["kwargs"].items()}}
    return tdsl.build_value(plan["input"])


def _observe(result, plan):
    if plan["kind"] == "dataclass":
        return {k: v for k, v in result.__dict__.items() if k != "__context__"}
    if plan["kind"] == "schema":
        back = {f["alias"]: f["name"] for f in plan["fields"] if f.get("alias")}
        return {back.get(k, k): v for k, v in dict(result).items()}
    return result


def _canon(x):
    return kernel.canon_mapping_unordered(kernel.canon(x))


def _innermost_kinds(plan):
    """Container/role kinds that directly hold a faulted payload (for the fingerprint)."""
    fl = set(int(k) for k in plan["faults"]["leaf"])
    kinds = set()

    def walk(t, v, holder):
        if isinstance(v, dict) and "$r" in v:
            pid = v["$r"]
            if any((pid + off) in fl for off in faults.LEAF_OFFSET.values()):
                kinds.add(holder)
            return
        k = t[0]
        if v is None:
            return
        if k in ("opt",):
            return walk(t[1], v, holder)
        if k in ("list", "set", "fset", "tup"):
            items = v.get("$set") or v.get("$tuple") if isinstance(v, dict) else v
            for e in items or []:
                walk(t[1], e, k)
        elif k == "dict":
            pairs = v["$map"] if "$map" in v else list(v.items())
            for kk, vv in pairs:
                if isinstance(kk, dict):
                    walk(t[1], kk, "dict.key")
                walk(t[2], vv, "dict.value")

    if plan["kind"] == "rule":
        walk(plan["type"], plan["input"], "top")
    elif plan["kind"] in ("schema", "dataclass"):
        for f in plan["fields"]:
            if f["name"] in plan["input"]:
                walk(f["type"], plan["input"][f["name"]], "field")
        for k, v in plan["input"].items():
            if k.startswith("x"):
                walk(["leaf"], v, "extra")
    else:
        walk(["leaf"], plan["a"], "param")
        for e in plan["args"]:
            walk(["leaf"], e, "*args")
        for e in plan["kwargs"].values():
            walk(["leaf"], e, "**kwargs")
    return sorted(kinds)


# ----------------------------------------------------------------------------- execution

def execute(plan):
    from utype.utils.exceptions import ParseError
    res = RunResult()
    kernel.reset_world()
    faults.register_leaves()
    kernel.make_module("verif_c11")
    kernel.make_module("verif_c10")     # (home of the discriminated data classes shared with C10)
    pol = plan["policies"]
    parse = build(plan)

    # fault-free control: must be accepted and equal to the reference
    value = _value_of(plan, control=True)
    exp0 = ref_plan(plan, value, pol, res.stats)
    try:
        got0 = _observe(parse(_value_of(plan, control=True)), plan) if exp0 is not SKIP else SKIP
    except Exception as e:  # noqa
        if not isinstance(e, ParseError):
            raise kernel.HarnessError(f"C11 control run raised {type(e).__name__}: {e} plan={kernel.jdump(plan)}")
        got0 = FAIL     # e.g. over a declared length bound even without faults: rejected, as the reference says (checked below)
    if exp0 is SKIP:
        res.ev("control", "not-judged")
    elif (exp0 is FAIL) != (got0 is FAIL) or (exp0 is not FAIL and _canon(got0) != _canon(exp0)):
        # even without a single offending element the policies changed the result: "every non-offending element is
        # converted exactly as under the default 'throw' policy" fails outright
        pols0 = "/".join(sorted(set(p for p in pol.values() if p != "throw"))) or "throw"
        res.violate(f"C11|{plan['kind']}|no-fault|{pols0}|policy_changes_fault_free_result",
                    f"without any offending element: got {_canon(got0) if got0 is not FAIL else 'rejected'} expected {_canon(exp0) if exp0 is not FAIL else 'rejected'}")
        return res
    else:
        res.ev("control", "ok")

    faults.reset()
    faults.set_plan(plan["faults"])
    expected = ref_plan(plan, _value_of(plan), pol, res.stats)
    if expected is SKIP:
        res.ev("not-judged")
        return res
    calls_before = sum(faults.STATE.fired.values())
    faults.STATE.fired.clear()
    try:
        got = _observe(parse(_value_of(plan)), plan)
        outcome = ("ok", _canon(got))
    except ParseError as e:
        outcome = ("ParseError", type(e).__name__)
    except Exception as e:  # noqa
        outcome = ("raw", type(e).__name__, kernel.clean_text(e, 120))
    fired = sum(faults.STATE.fired.values())
    res.stats["fault:leaf_fail"] += faults.STATE.fired.get("leaf_fail", 0)
    res.ev("parse", outcome, "expected", "FAIL" if expected is FAIL else _canon(expected))

    kinds = ",".join(_innermost_kinds(plan)) or "-"
    pols = "/".join(sorted(set(p for p in pol.values() if p != "throw"))) or "throw"
    if "set" in kinds and fired:
        res.stats["probe:set_with_fault"] += 1
    if "dict.key" in kinds and fired:
        res.stats["probe:dict_key_fault"] += 1
    if fired and ("rleaf" in kernel.jdump(plan.get("type") or plan.get("fields") or "") or "rkey" in kernel.jdump(plan.get("type") or plan.get("fields") or "")):
        res.stats["probe:rule_leaf_fault"] += 1
    if fired and (plan.get("max_len") or any(f.get("max_len") for f in plan.get("fields", []))) and "exclude" in pols:
        res.stats["probe:length_bound_after_exclusion"] += 1
    if plan["kind"] == "rule" and plan["type"][0] in ("union", "xor") and not tdsl.is_scalar(plan["type"]) and fired:
        res.stats["probe:union_of_containers"] += 1
    if '"dcitem"' in kernel.jdump(plan.get("type") or plan.get("fields") or ""):
        res.stats["probe:data_class_elements"] += 1
    if fired and plan.get("mode") == "a" and any(f["required"] == "mode" for f in plan.get("fields", [])):
        res.stats["probe:mode_required_field"] += 1

    if outcome[0] == "raw":
        res.violate(f"C11|{plan['kind']}|{kinds}|{pols}|raw:{outcome[1]}",
                    f"raw {outcome[1]} escaped instead of the expected result / ParseError: {outcome[2]}")
    elif expected is FAIL:
        if outcome[0] == "ok":
            res.violate(f"C11|{plan['kind']}|{kinds}|{pols}|unexpected_accept",
                        f"input with an offending element under 'throw'/required was accepted: {outcome[1]}")
    else:
        if outcome[0] == "ParseError":
            res.violate(f"C11|{plan['kind']}|{kinds}|{pols}|unexpected_reject",
                        f"policies {pol} must not reject; expected {_canon(expected)}")
        elif outcome[1] != _canon(expected):
            res.violate(f"C11|{plan['kind']}|{kinds}|{pols}|wrong_value",
                        f"got {outcome[1]} expected {_canon(expected)}")

    nfaults = len(plan["faults"]["leaf"])
    if fired and nfaults:
        total = kernel.jdump(plan.get("input", [plan.get("a"), plan.get("args"), plan.get("kwargs")])).count('"$r"')
        if total > nfaults:
            shape = plan["type"] if plan["kind"] == "rule" else [
                (f["type"], f["required"], f["on_error"]) for f in plan.get("fields", [])]
            res.nontrivial = kernel.digest_of([plan["kind"], shape, pol, sorted(plan["faults"]["leaf"].items()),
                                               plan.get("addition"), plan.get("opts_at")])
    return res


# ----------------------------------------------------------------------------- shrinking

def _shrink_value(v):
    """Yield copies of a value expr with one list element / map pair removed."""
    if isinstance(v, list):
        for i in range(len(v)):
            yield v[:i] + v[i + 1:]
        for i, x in enumerate(v):
            for y in _shrink_value(x):
                yield v[:i] + [y] + v[i + 1:]
    elif isinstance(v, dict):
        for key in ("$set", "$tuple", "$map", "$fl"):
            if key in v:
                for y in _shrink_value(v[key]):
                    yield {key: y}
                return
        if "$r" in v:
            return
        for k in list(v):
            d = dict(v)
            d.pop(k)
            yield d
        for k, x in v.items():
            for y in _shrink_value(x):
                d = dict(v)
                d[k] = y
                yield d


def shrink(plan):
    fl = plan["faults"]["leaf"]
    for k in list(fl):
        p = copy.deepcopy(plan)
        p["faults"]["leaf"].pop(k)
        yield p
    for k, name in fl.items():
        if name != "ValueError":
            p = copy.deepcopy(plan)
            p["faults"]["leaf"][k] = "ValueError"
            yield p
    for k, v in plan["policies"].items():
        if v != "throw":
            p = copy.deepcopy(plan)
            p["policies"][k] = "throw"
            yield p
    if plan["kind"] in ("schema", "dataclass"):
        for i, f in enumerate(plan["fields"]):
            if len(plan["fields"]) > 1:
                p = copy.deepcopy(plan)
                p["fields"].pop(i)
                p["input"].pop(f["name"], None)
                yield p
            if f["on_error"]:
                p = copy.deepcopy(plan)
                p["fields"][i]["on_error"] = None
                yield p
        for k in list(plan["input"]):
            if k.startswith("x"):
                p = copy.deepcopy(plan)
                p["input"].pop(k)
                yield p
        for i, f in enumerate(plan["fields"]):
            if f["name"] in plan["input"]:
                for y in _shrink_value(plan["input"][f["name"]]):
                    p = copy.deepcopy(plan)
                    p["input"][f["name"]] = y
                    yield p
    elif plan["kind"] == "rule":
        for y in _shrink_value(plan["input"]):
            p = copy.deepcopy(plan)
            p["input"] = y
            yield p
    else:
        for i in range(len(plan["args"])):
            p = copy.deepcopy(plan)
            p["args"].pop(i)
            yield p
        for k in list(plan["kwargs"]):
            p = copy.deepcopy(plan)
            p["kwargs"].pop(k)
            yield p
