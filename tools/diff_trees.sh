#!/bin/sh
# usage: tools/diff_trees.sh <commit> "<ids>" <nseeds>
# Runs the same plans against <commit> and against /repo HEAD and buckets, for the seeds that were clean on <commit>, the
# first history event that differs: candidates for regressions introduced by the repairs (not a registered check).
C="$1"; IDS="$2"; N="${3:-2000}"
HERE="$(cd "$(dirname "$0")/.." && pwd)"
W=/dev/shm/verif_old_$$
git -C /repo worktree add -q --detach "$W" "$C" || exit 3
for id in $IDS; do
  for k in 0 1 2 3 4 5 6 7; do
    a=$((k*N/8)); b=$(((k+1)*N/8))
    (cd "$HERE" && VERIF_REPO="$W" PYTHONHASHSEED=0 /venv/bin/python tools/tree_digests.py $id $a $b > /dev/shm/old_${id}_$k.txt 2>/dev/null) &
    (cd "$HERE" && PYTHONHASHSEED=0 /venv/bin/python tools/tree_digests.py $id $a $b > /dev/shm/new_${id}_$k.txt 2>/dev/null) &
  done
  wait
  cat /dev/shm/old_${id}_*.txt > /dev/shm/old_$id.jsonl; cat /dev/shm/new_${id}_*.txt > /dev/shm/new_$id.jsonl
  rm -f /dev/shm/old_${id}_*.txt /dev/shm/new_${id}_*.txt
  echo "== $id"
  /venv/bin/python "$HERE/tools/diff_trees.py" /dev/shm/old_$id.jsonl /dev/shm/new_$id.jsonl
done
git -C /repo worktree remove --force "$W"
