#!/bin/sh
# usage: tools/sweep.sh "<ids>" <first_seed> <last_seed> [tier]   -- runs checks over VERIF_SEED values; prints exit codes (not a registered check)
IDS="$1"; A="$2"; B="$3"; TIER="${4:-quick}"
cd "$(dirname "$0")/.."
for s in $(seq "$A" "$B"); do
  for id in $IDS; do
    out=$(VERIF_SEED=$s timeout 3000 ./check "$id" --tier "$TIER" 2>&1); rc=$?
    echo "seed=$s $id rc=$rc $(echo "$out" | grep -E '^runs=' | cut -c1-120)"
    if [ $rc -ne 0 ]; then echo "$out" | tail -15; fi
  done
done
