"""Buckets the first differing history event per seed between two dumps made by tree_digests.py (old tree had no violation)."""
import sys, json, collections
old = {json.loads(l)["seed"]: json.loads(l) for l in open(sys.argv[1])}
new = {json.loads(l)["seed"]: json.loads(l) for l in open(sys.argv[2])}
b = collections.defaultdict(list)
nclean = 0
for s, o in old.items():
    n = new.get(s)
    if n is None or o["nviol"] != 0:
        continue
    nclean += 1
    if o["history"] == n["history"]:
        continue
    for i, (x, y) in enumerate(zip(o["history"], n["history"])):
        if x != y:
            key = json.dumps([a if not isinstance(a, (list, dict)) else "..." for a in x])[:90] + "  ->  " + json.dumps([a if not isinstance(a, (list, dict)) else "..." for a in y])[:90]
            b[key].append(s)
            break
    else:
        b["length differs"].append(s)
print(f"clean on old tree: {nclean}; differing: {sum(len(v) for v in b.values())}")
for k, v in sorted(b.items(), key=lambda kv: -len(kv[1]))[:25]:
    print(f"{len(v):5d}  {k}   seeds {v[:5]}")
