#!/bin/sh
# usage: tools/seeded_verify.sh <dir with patch.diff and demo.py> <scratch worktree the demo was written for>
# Confirms in that scratch worktree of /repo: tests pass with the change, demo fails with it, demo passes without it.
D="$1"; W="$2"
cd "$W" || exit 3
git checkout -q -- . && git clean -fdq
PYTHONPATH="$W" timeout 300 /venv/bin/python "$D/demo.py" >/dev/null 2>&1; base=$?
if ! git apply "$D/patch.diff"; then echo "$D: PATCH DOES NOT APPLY"; exit 3; fi
t=$(timeout 600 /venv/bin/python -m pytest -q -p no:cacheprovider 2>&1 | tail -1)
PYTHONPATH="$W" timeout 300 /venv/bin/python "$D/demo.py" >/dev/null 2>&1; mut=$?
git checkout -q -- . && git clean -fdq
echo "$D: demo_without=$base demo_with=$mut tests: $t"
