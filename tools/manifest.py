#!/usr/bin/env python3
"""Regenerates MANIFEST.json from the table below (single source of truth) and validates it when jsonschema is available."""
import json, os, sys
HERE = os.path.dirname(os.path.dirname(os.path.abspath(__file__)))

CLAIMED = {
 "C16": dict(
    technique="deterministic simulation: seeded operation histories stepped against a cache-free reference registry; 2-thread baton-scheduled runs checked for linearizability",
    level="seeded exploration of register/resolve/convert histories (4 registry flavours, detector and converter faults, attribute markers incl. falsy ones, virtual subclasses, types held by List/Dict key/Dict value/Optional/Rule/data-class declarations made before or after a registration) compared operation by operation with the statement as executable reference; a share of runs splits the history over two simulated threads under a seeded line-level schedule and requires linearizability w.r.t. the same reference",
    note="reference = statement read literally (DESIGN 3.16); threaded mode limited to 6 operations and source-line pre-emption granularity; samples, does not enumerate",
    ref="3.16"),
 "C04": dict(
    technique="deterministic simulation: seeded fault plans at converter/hook/input-protocol seams, containment oracle, virtual step clock watchdog",
    level="slice: error containment, body-not-entered / nothing-unconverted-gets-through and bounded termination under injected faults: leaf converter x 11 exception classes (persistent, transient), n-th call hook faults (pre/post_validate, __validate__, key __str__, object __repr__/__ne__/__eq__/__str__), input-protocol faults of nested and top-level (Cls.__from__) mappings and lists, hostile scalars incl. self-referential lists; across rule/type_transform/Schema/DataClass/four function wrapper kinds (eager and lazy, typed send), containers, | ^ & and contains-constrained types at the top level and nested, typed and forbidden extras, cast_keyword_str, discriminated fields, a field under two spellings; fault-free control per plan; minimised fresh-interpreter replay",
    note="totality over the whole value domain is NOT claimed (only a pool of hostile scalars rides along for the step watchdog); faults are placed below the top level only; non-Exception conditions are not injected (DESIGN 3.4, 6)",
    ref="3.4"),
 "C10": dict(
    technique="deterministic simulation: seeded leaf + structural fault injection, fail-fast vs collecting replicas, injected fault set as ground truth",
    level="seeded exploration of (declaration over leaf, constrained (Rule) leaf, | & ^ types, containers, discriminated fields, alias_from, dependencies, typed @property; input; leaf fault set; dropped required keys; excess keys; one field under two spellings; max_params; ignore_constraints; max_errors; both lookup strategies) plans executed fail-fast, collecting and fault-free; the failing items are injected, verdict/value/reported-set/error-kind/cap clauses of the statement checked exactly",
    note="item failure = fail-fast parse of the item alone under the same faults; names compared as a set; samples, does not enumerate (DESIGN 3.10)",
    ref="3.10"),
 "C11": dict(
    technique="deterministic simulation: seeded fault-injection at the converter seam, metamorphic reference, delta-debugged replay",
    level="seeded exploration of (declaration kind rule/Schema/DataClass/function, container tree over leaf and constrained leaf types incl. Optional-wrapped containers and data-class elements, length bounds, mode-dependent required fields, deferred defaults, dependencies, typed property outputs, typed additions, policy triple at class level or only at run time, input, injected fault set) plans; the failing elements are injected, so the oracle's ground truth is the fault plan itself; a fault-free run must equal the strict result; every violation is minimised and replayed in a fresh interpreter",
    note="trusts the harness leaf converter and the reference's reading of the statement (DESIGN 3.11); samples, does not enumerate; fixed-length tuples excluded",
    ref="3.11"),
}

CLAIMED.update({
 "C06": dict(
    technique="deterministic simulation: tuning-knob flip -- two replicas (data_first_search on/off, set at class level or at run time) driven by the same seeded plan with leaf and structural faults, fail-fast and collecting; histories compared",
    level="seeded exploration of (declaration with aliases/alias_from/case-insensitivity/defaults/dependencies/no_input/mode/on_error, inherited fields re-declared or dropped by the class under test, an alias spelled like a method, class options or options given only at run time, earlier parses under other run-time options, input key spellings incl. one field under two spellings, leaf faults) plans, each executed under both knob values (class level or run time), fail-fast and collecting; verdict, parsed data, and the (error class, item) multiset must agree",
    note="fail-fast with >=2 failing items: the first reported (class, item) agrees (DESIGN 3.6); warnings not compared; samples, does not enumerate",
    ref="3.6"),
 "C20": dict(
    technique="deterministic simulation: real threads under a baton scheduler (sys.settrace line pre-emption inside utype/), seeded schedules (uniform/targeted/quantum/PCT), linearizability against sequential twin worlds, schedule minimisation and replay",
    level="seeded exploration of 2-3 thread schedules (uniform/targeted/quantum/PCT/anchor-PCT; source-line granularity, in a share of runs bytecode granularity inside the anchor functions) over first parses with pending forward references (module-level and function-local classes, functions, generator functions), a first use that fails, conversions racing registrations (incl. lookup | register | later lookup), concurrent decoration/first calls, warmed steady state, and a thread declaring classes/functions with the same annotation spellings; each run's per-operation outcomes must equal those of some sequential order consistent with real time; deadlock and step-budget overruns are violations",
    note="<=6 operations per run; cooperative lock shim replaces utype's locks so blocking is scheduled too; races that need two narrow windows are hit ~2 per 10000 runs (thorough tier); samples, does not enumerate (DESIGN 3.20)",
    ref="3.20"),
})

CLAIMED.update({
 "C07": dict(
    technique="deterministic simulation: seeded operation-and-fault histories on one data-class instance (history machine), statement invariants evaluated after every operation, failure atomicity via before/after snapshots, delta-debugged replay",
    level="seeded exploration of 6-24 step histories of every public mutator (setattr/delattr, item set/delete by name, alias and case variant, update, pop, popitem, setdefault, clear, |=, copy, another instance as operand) with valid/convertible/invalid arguments and injected faults (leaf converter, property-setter hook at its n-th call, input-protocol failure of the mapping given to update/|=) on Schema and DataClass worlds incl. inherited fields with subclass options, mode-dependent required fields under class or run-time options, Final+Field, collect_errors classes, an exclude-policy field, properties depending on fields (also on a no_output field); invariants I1-I7 of the statement checked after every step on every live instance",
    note="public-API views only; property compared with its definition only while its dependencies are present; multi-key update may stop half-way (DESIGN 3.7); samples, does not enumerate",
    ref="3.7"),
})

CLAIMED.update({
 "C17": dict(
    technique="deterministic simulation: seeded event-order scheduling of define / first-use / premature-use / other-module events over a live module, outcomes compared with a direct-reference twin world (acyclic) or a structural reference model (cyclic); delta-debugged replay",
    level="seeded exploration of (program of 2-3 mutually referencing data classes with up to three spellings of one name, constrained aliases with different constraints, typed property outputs, subclasses up to three levels, decorated functions incl. one usable while a name is undefined, ignore_params, generator functions with referenced yield/return types, or a function-local class incl. one shadowing a module-level name; spelling vector incl. 'B', Optional['B']/List/Dict/Union, whole-quoted, postponed evaluation, Self; definition order; first-use order; premature uses; a second module with the same class names defined and used in between; JSON-schema generation) histories; every non-premature use must return what the direct-reference program returns",
    note="inputs restricted to nested dicts with int leaves and one invalid leaf so that the reference does not model conversions; cyclic programs use the structural model (cross-checked against the direct twin on acyclic runs: 0 disagreements so far); samples, does not enumerate (DESIGN 3.17)",
    ref="3.17"),
 "C19": dict(
    technique="deterministic simulation: seeded operation-and-fault histories (parses, calls, abandoned generators, result mutations, late and foreign definitions) with hook and leaf faults; history-independence oracle = same operation alone in a fresh twin world; input snapshots; alias isolation after mutation",
    level="seeded exploration of 5-18 step histories over Schema/DataClass/force_default classes, decorated functions and generators with mutable defaults (plain, Annotated, nested, factories incl. one handing out a shared template), Lax-bounded bare lists, JSON-text inputs, exclude+dependency fields, function-local classes, lazily resolved references incl. a function tolerant of a late class, a second module with the same class names, Cls(mapping, **kw); P1 caller inputs unchanged, P2 mutating a result changes no other live result, P3 every operation's outcome (and the pristine probes appended to every history) equals that of the same operation alone in a fresh world; a sample of histories and probes is re-executed in fresh interpreters to expose state kept in module or class attributes",
    note="twin = same source under fresh names in the same process; an operation in which an n-th-call hook fault fired is not compared (later ones are); samples, does not enumerate (DESIGN 3.19)",
    ref="3.19"),
})

CLAIMED.update({
 "C08": dict(
    technique="deterministic simulation: consumer and body scripts stepped on a virtual-time asyncio loop (seeded ready-queue order, clock jumps, cancellation at loop iterations, wait_for deadlines) and a seeded step order for sync generators; refinement against the undecorated function behind an ideal converting proxy",
    level="slice (generator/coroutine/async-generator wrappers, eager and lazy, plain functions and static methods, collect_errors on/off, annotations given as objects or as whole strings over late names): seeded exploration of 1-3 consumers x body scripts (yield/sleep/return/return-a-coroutine/raise) x consumer protocols (next/send, anext/asend, throw/close/drop, pauses, per-op timeouts) x leaf faults on parameter/yielded/sent/returned payloads x task cancellation; per-consumer histories and what the body received must equal the reference up to the first fault, afterwards only: no non-conforming value delivered, body not resumed after a conversion failure, loop reaches quiescence",
    note="the binding clause of C08 (a pure function of signature and call) is NOT decided; when the wrapped body is finalised is not compared; yielded generator objects excluded (DESIGN 3.8)",
    ref="3.8"),
})

# worlds added after the seeded-change rounds 4 and 5 (appended to the level texts)
MORE = {
 "C04": "; also constrained types called directly with operator-hostile objects (__len__/__lt__/__mod__/__iter__ as hook fault sites), hostile scalars behind one container level, *args: Leaf, leaf return/yield types, non-mapping and hash-hostile inputs of discriminated fields",
 "C06": "; also data given as one positional mapping with a key that is not a str, un-annotated **kwargs with Options(override=True)",
 "C07": "; also an Any-typed field with a type-sensitive dependant, a property that depends on a property, plans without any required field (clear()/popitem() go all the way), bool arguments judged by exact type",
 "C08": "; also ignore_result / ignore_params decorators, yielded None, a richer signature (constrained *rest values, keyword-only Param default), a bare method of a class decorated with @utype.parse",
 "C10": "; also positional-only parameters (left out / given), constrained *args types, duplicate report entries",
 "C11": "; also fixed tuples with typed surplus items (preserve only), aliased fields, typed a/*args/**kwargs, dependencies on other generated fields, discriminated fields, an aliased keyword parameter with dependencies",
 "C16": "; also a class criterion and a metaclass criterion in one registration; threaded runs also use profiled write cuts (below)",
 "C17": "; also references two generic levels deep, Options(addition=...) by reference, discriminated unions over later classes, one generic with two reference-bearing arguments, local sibling classes, a self-referencing class nested in a class body",
 "C19": "; also empty containers of the declared type as inputs and one input object parsed twice",
 "C20": "; also a subclass whose base holds the pending references first-parsed by every thread; anchor-cut schedules (stop a writer before a chosen store into shared state - profiled in a twin world -, run another thread for whole operations or up to a chosen read, hand control back to the stopped writer)",
}
MORE2 = {  # worlds added with the repair-review rounds 6-8
 "C04": "; the constrained types the library ships (Timestamp, Year, Month, EmailStr) called directly, dates / times / durations at their limits, an endless iterator that ticks the step clock, input keys named like the generated constructor's parameters, faulty containers at the top of rule calls; a fault-free control that raises anything but ParseError is a violation",
 "C06": "; positional mappings with int / str-subclass keys, positional-only parameters also given by keyword, property setters as fields; fail-fast with several failing items: the same first (class, item)",
 "C07": "; typed / diamond / second-level property dependencies, a property over a no_output field, getter+deleter properties, late-failing setters, class options invalid_values='exclude', run-time options kept by the instance, additional items present from the start (attribute view maintained)",
 "C08": "; rich signatures (*rest: PosInt, keyword-only Param defaults), ignore_result / ignore_params, bare methods of decorated classes",
 "C10": "; two and three typed property outputs, a __validate__ hook, alias conflicts (one report per item), dependencies on refused fields (no phantom absence), positional-only parameters",
 "C11": "; unions / one-of over containers, contains / max_contains, JSON-text inputs of discriminated fields, items given unhashable for a set, a keyword-only parameter depending on a positional one",
 "C16": "; metaclass and Protocol criteria, falsy converter and detector objects, a memo-race template in a third of the threaded plans",
 "C17": "; Array['X'] / Object[str, 'X'] / PosInt | List['X'] (types built before the declaration), Final / ClassVar next to references, Self inside lazily evaluated annotations, dotted 'MOD.X' spelling, a subclass in another module, the first use being an assignment, a data class naming the class of its own body, a function under a functools.wraps decorator of another module",
 "C19": "; const / Enum / lax-bound fields whose values are mutable, deque defaults, two declarations sharing one Field object whose types are named by reference, an instance re-initialised after a refused initialisation, nested instances assigned after union trial passes (P4), discriminated declarations that are refused at first use",
 "C20": "; a function's return declaration and a second module's function resolved for the first time by concurrent calls, profiled write cuts",
}
MORE3 = {  # worlds added with the sixth round of seeded changes and review round 9
 "C04": "; a constrained type with pre_validate / post_validate hooks of its own alone at the top of a call; sets and frozensets of typing.Any given elements they cannot hash",
 "C06": "; the library's marker for 'not provided' as an input value",
 "C07": "; an aliased case-insensitive field with a dependant, a property deleter that fails after it has changed the instance; a settable property nothing depends on (the late-failing setter is the only reason for a rollback)",
 "C08": "; bare Generator / AsyncIterator annotations (a decoration that fails is a violation); a third signature with positional-only parameters (one defaulted, left out or given) next to **kw: str and keywords named like them",
 "C10": "; runs under invalid_values='exclude' with dependencies on required fields, a fourth typed output under a cap of 2, additional items typed by a constrained leaf",
 "C11": "; unions pairing a sequence with a mapping (the value's own kind first under the policies), the key policy as the only one that is on, pair-list inputs with an unknown discriminator, fields required by mode that have a default",
 "C17": "; Array / Object fields under a constraint, Annotated[..., Field(...)] around references under postponed evaluation, Self in a lazily evaluated annotation inherited by a subclass that re-defaults the field (own small world with a direct twin), local classes that name each other",
 "C19": "; mutable members inside deque / defaultdict defaults, data class instances as defaults (one immutable), one-shot iterators through unions (P5), re-initialisation after an accepted initialisation that left a field out",
 "C20": "; a thread declaring another module whose class body builds an operator union over the spelling another thread is resolving",
}
for _k, _v in MORE.items():
    CLAIMED[_k]["level"] += _v
for _k, _v in MORE3.items():
    MORE2[_k] = MORE2.get(_k, "") + _v
for _k, _v in MORE2.items():
    CLAIMED[_k]["level"] += _v
CLAIMED["C20"]["note"] = CLAIMED["C20"]["note"].replace("races that need two narrow windows are hit ~2 per 10000 runs (thorough tier)", "races that need two narrow windows are reached through the anchor-cut schedules (the three seeded ones within the quick tier's 6000 runs)")
CLAIMED["C08"]["note"] = CLAIMED["C08"]["note"].replace("the binding clause of C08 (a pure function of signature and call) is NOT decided", "the binding clause of C08 (a pure function of signature and call) is NOT decided beyond the three signatures the worlds use")

NA = {
 "C01": "pure function of (declaration, options, input): no schedule, history, fault or knob can change the verdict; sampling inputs would be property-based testing, not simulation",
 "C02": "biconditional over the value domain of each constraint; pure",
 "C03": "composition of a pure function with itself; no state survives between the two parses (that part is C19)",
 "C05": "reference model of field rules over generated declarations and key sets; no schedule, fault or knob in it",
 "C09": "accept/reject algebra over argument types and inputs; pure",
 "C12": "subset/value-preservation relation over (value, target, flags); pure",
 "C13": "agreement of two pure components over all values; needs an independent validator on generated outputs, not a simulator",
 "C14": "pure relation between encoder and converter tables (registry races/histories are under C16/C20)",
 "C15": "recursive translator over an input language; pure",
 "C18": "both clauses are functions of (declaration, input, max_depth); the virtual clock only measures, nothing is scheduled or faulted",
}
PENDING = {  # claimed by DESIGN.md, check not registered yet
}
ALL = ["C%02d" % i for i in range(1, 21)]

def main():
    checks = []
    for pid in sorted(CLAIMED):
        c = CLAIMED[pid]
        checks.append({
            "property_id": pid,
            "quick_cmd": f"./check {pid} --tier quick",
            "thorough_cmd": f"./check {pid} --tier thorough",
            "evidence_file": f"evidence/{pid}.json",
            "replay_cmd_template": f"./check {pid} --replay {{path}}",
            "engine": "sim",
            "level_claimed": {"category": "exploration", "text": c["level"], "design_ref": "DESIGN.md " + c["ref"]},
            "level_note": c["note"],
            "technique": c["technique"],
        })
    na = [{"property_id": p, "reason": NA[p]} for p in sorted(NA)]
    for p in ALL:
        if p not in CLAIMED and p not in NA:
            na.append({"property_id": p, "reason": PENDING.get(p, "check under construction in this framework (see DESIGN.md); not claimed until its check is registered")})
    m = {
        "version": 1,
        "setup_cmd": "/venv/bin/python tools/setup_check.py",
        "hooks": {
            "guard": "UTYPE_VERIF",
            "enable": "no source hooks are needed: checks import utype from /repo's working tree; pre-emption points come from sys.settrace, faults enter through public registration seams, the event loop is an ordinary subclass",
            "baseline_off_cmd": "cd /repo && /venv/bin/python -m pytest -ra -q -p no:cacheprovider --timeout=900 --continue-on-collection-errors",
            "source_commits": [],
            "add_only": True,
        },
        "engines": [{"name": "sim", "path": "sim/", "serves_properties": sorted(CLAIMED),
                     "kind_free_text": "in-process deterministic simulator: seeded plans, fault kit at public seams, baton thread scheduler (sys.settrace), virtual-time asyncio loop, history machines with reference models, delta-debugging minimiser, fresh-interpreter replay"}],
        "checks": checks,
        "not_applicable": sorted(na, key=lambda x: x["property_id"]),
        "notes": "All checks: ./check <ID> [--tier quick|thorough] [--replay file]; VERIF_SEED selects the seed block; exit 0/1/2 = held / violation / harness error. See DESIGN.md.",
    }
    with open(os.path.join(HERE, "MANIFEST.json"), "w") as f:
        json.dump(m, f, indent=1)
    try:
        import jsonschema
        jsonschema.validate(m, json.load(open("/root/.vp/MANIFEST.schema.json")))
        print("MANIFEST.json valid;", len(checks), "checks")
    except ImportError:
        print("MANIFEST.json written (jsonschema not available here)")

if __name__ == "__main__":
    main()
