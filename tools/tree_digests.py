"""Prints one JSON line {seed, nviol, history} per seed for one property against the tree in VERIF_REPO (helper for tools/diff_trees.sh)."""
import sys, os, random, importlib, json
sys.path.insert(0, os.path.dirname(os.path.dirname(os.path.abspath(__file__))))
from sim import kernel
kernel.bootstrap()
pid, a, b = sys.argv[1], int(sys.argv[2]), int(sys.argv[3])
prop = importlib.import_module("props." + pid.lower())
for s in range(a, b):
    plan = prop.generate(random.Random(s), "quick")
    plan["seed"] = s
    try:
        r = prop.execute(plan)
        print(json.dumps({"seed": s, "nviol": len(r.violations), "history": json.loads(kernel.jdump(r.history))}), flush=True)
    except BaseException as e:  # noqa
        print(json.dumps({"seed": s, "nviol": -1, "history": [["ERR", type(e).__name__]]}), flush=True)
