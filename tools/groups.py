"""Triage helper: run N seeds of one property in-process and group violation fingerprints (not a registered check)."""
import sys, os, random, collections, importlib
sys.path.insert(0, os.path.dirname(os.path.dirname(os.path.abspath(__file__))))
from sim import kernel
kernel.bootstrap()
pid, n = sys.argv[1], int(sys.argv[2])
start = int(sys.argv[3]) if len(sys.argv) > 3 else 0
prop = importlib.import_module("props." + pid.lower())
groups = collections.defaultdict(list)
for s in range(start, start + n):
    plan = prop.generate(random.Random(s), "quick")
    plan["seed"] = s
    r = prop.execute(plan)
    for fp, t in r.violations:
        groups[fp].append((s, t))
for fp, v in sorted(groups.items(), key=lambda kv: -len(kv[1])):
    print(len(v), fp, "seed", v[0][0])
    print("     ", v[0][1][:420])
print(len(groups), "fingerprints")
