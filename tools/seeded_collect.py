"""Copies verified seeded changes from the sub-agents' output directory into /verif/seeded/<ID>/<k>/ with meta.json.
usage: seeded_collect.py <outdir> <round-tag>"""
import json, os, shutil, subprocess, sys
HERE = os.path.dirname(os.path.dirname(os.path.abspath(__file__)))
out, tag = sys.argv[1], sys.argv[2]
head = subprocess.run(["git", "-C", "/repo", "rev-parse", "--short", "HEAD"], capture_output=True, text=True).stdout.strip()
for pid in sorted(os.listdir(out)):
    d = os.path.join(out, pid)
    if not (os.path.isdir(d) and pid.startswith("C")):
        continue
    for k in sorted(os.listdir(d)):
        src = os.path.join(d, k)
        if not os.path.exists(os.path.join(src, "patch.diff")):
            continue
        dst = os.path.join(HERE, "seeded", pid, f"{tag}{k}")
        os.makedirs(dst, exist_ok=True)
        for f in ("patch.diff", "demo.py", "README.md"):
            if os.path.exists(os.path.join(src, f)):
                shutil.copy(os.path.join(src, f), os.path.join(dst, f))
        meta_path = os.path.join(dst, "meta.json")
        meta = json.load(open(meta_path)) if os.path.exists(meta_path) else {}
        meta.setdefault("property", pid)
        meta.setdefault("origin", "independent sub-agent given only the property text and a scratch worktree")
        meta.setdefault("written_against_repo_commit", head)
        readme = open(os.path.join(src, "README.md")).read() if os.path.exists(os.path.join(src, "README.md")) else ""
        meta.setdefault("needs_to_manifest", "see README.md")
        meta.setdefault("verified", "tools/seeded_verify.sh: 115 tests pass with the change; demo.py exits 1 with it and 0 without it (run in the sub-agent's scratch worktree with PYTHONPATH set to it)")
        json.dump(meta, open(meta_path, "w"), indent=1)
        print(dst)
