"""setup_cmd: nothing is installed; verify the interpreter imports utype from /repo and the harness compiles."""
import os, sys, glob
HERE = os.path.dirname(os.path.dirname(os.path.abspath(__file__)))
sys.dont_write_bytecode = True
sys.path.insert(0, HERE)
for f in glob.glob(os.path.join(HERE, "sim", "*.py")) + glob.glob(os.path.join(HERE, "props", "*.py")):
    compile(open(f).read(), f, 'exec')
from sim import kernel
u = kernel.bootstrap()
import hypothesis  # noqa  (present in /venv; not required by the checks)
print("ok: utype", u.__version__, "from", os.path.dirname(u.__file__))
