"""Helper: minimise the first violation of given seeds and write named replay files (used to keep regression replays of fixed defects).
usage: mkreplay.py <PID> <seed>:<name>[:<fingerprint-substring>] ..."""
import sys, os, random, importlib
sys.path.insert(0, os.path.dirname(os.path.dirname(os.path.abspath(__file__))))
from sim import kernel, runner
kernel.bootstrap()
pid = sys.argv[1]
prop = importlib.import_module("props." + pid.lower())
for spec in sys.argv[2:]:
    parts = spec.split(":")
    s, name = int(parts[0]), parts[1]
    want = parts[2] if len(parts) > 2 else ""
    plan = prop.generate(random.Random(s), "quick"); plan["seed"] = s
    r = prop.execute(plan)
    cands = [(fp, t) for fp, t in r.violations if want in fp]
    if not cands:
        print("no violation for", spec, [fp for fp, _ in r.violations]); continue
    fp, t = cands[0]
    plan = runner.minimise(prop, plan, fp, budget_s=25)
    r = prop.execute(plan)
    t = [x for f, x in r.violations if f == fp][0]
    print(runner.write_replay(pid, s, plan, fp, t, r, name=name + ".json"), fp, "::", t[:200])
