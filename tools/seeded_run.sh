#!/bin/sh
# usage: tools/seeded_run.sh <patch.diff> "<ids>" [tier] [extra check args]
# Applies a seeded change to a scratch worktree of /repo (never to /repo), runs the named checks against it with
# VERIF_REPO, prints one line per check, removes the scratch worktree. Not a registered check.
PATCH="$1"; IDS="$2"; TIER="${3:-quick}"; shift 3 2>/dev/null
HERE="$(cd "$(dirname "$0")/.." && pwd)"
W=/dev/shm/verif_mut_$$
git -C /repo worktree add -q --detach "$W" HEAD || exit 3
if ! git -C "$W" apply "$PATCH"; then echo "PATCH DOES NOT APPLY: $PATCH"; git -C /repo worktree remove --force "$W"; exit 3; fi
for id in $IDS; do
  out=$(cd "$HERE" && VERIF_REPO="$W" timeout 3000 ./check "$id" --tier "$TIER" "$@" 2>&1); rc=$?
  echo "$(basename $(dirname $PATCH)) $id rc=$rc $(echo "$out" | grep -E '^runs=' | cut -c1-90)"
  echo "$out" | grep -E "^violation fingerprint|^HARNESS" | cut -c1-400 | head -4
done
git -C /repo worktree remove --force "$W"
