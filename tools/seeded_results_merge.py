"""Records, per seeded change, the result of a matrix run in meta.json (`last_verified`), for the rows whose patch applied
plainly to the commit of that run. usage: seeded_results_merge.py <RESULTS.md> <repo-commit>
Patches that later stop applying (a fix: commit rewrote their lines) are then reported with that recorded result."""
import json, os, re, subprocess, sys, tempfile, shutil
HERE = os.path.dirname(os.path.dirname(os.path.abspath(__file__)))
res_path, commit = sys.argv[1], sys.argv[2]
rows = {}
for line in open(res_path):
    m = re.match(r'\| (C\d\d/\S+) \| (\S+)\s*(.*?) \| (CAUGHT.*?|missed.*?) \| `(.*)` \|', line)
    if m:
        rows.setdefault(m.group(1), []).append({"check": m.group(2), "result": m.group(4), "fingerprint": m.group(5)})
wt = tempfile.mkdtemp(prefix="verif_merge_", dir="/dev/shm")
os.rmdir(wt)
subprocess.run(["git", "-C", "/repo", "worktree", "add", "-q", "--detach", wt, commit], check=True)
n = 0
try:
    for change, results in sorted(rows.items()):
        d = os.path.join(HERE, "seeded", change)
        patch = os.path.join(d, "patch.diff")
        if subprocess.run(["git", "-C", wt, "apply", "--check", patch], capture_output=True).returncode != 0:
            continue    # not a plain application at that commit: the row is not evidence
        mp = os.path.join(d, "meta.json")
        meta = json.load(open(mp))
        meta["last_verified"] = {"repo_commit": commit[:7], "results": results}
        json.dump(meta, open(mp, "w"), indent=1)
        n += 1
finally:
    subprocess.run(["git", "-C", "/repo", "worktree", "remove", "--force", wt])
print("recorded", n, "changes at", commit[:7])
